(* C12 (remaining clauses) and the "no Failure" part of C05, model side.
   T-b  the first consumed choose_version call is for the root with the singleton set of the requested version,
        and it is preceded by exactly should_cancel, prioritize(root, {rv});
   T-c  the model never returns [OFailure FNoTerm]; with a provider that answers choose_version inside the
        offered set it never returns [OFailure FIncompatibleVersion] either;
   T-a  the set of every consumed choose_version call is non-empty. *)
From Coq Require Import List NArith ZArith Bool Lia PeanoNat.
From PG Require Import Model.VS Model.Term Model.Solver Model.Registry Proofs.VSLaws Proofs.TermProofs Proofs.AssocProofs
  Proofs.SolverSem Proofs.SolverStore Proofs.SolverTrace Proofs.SolverProtocol Proofs.SolverQueue Proofs.SolverQueue2
  Proofs.SolverSound1 Proofs.SolverReach1 Proofs.SolverReach2.
Import ListNotations.

Section Proto2.
  Context {VS Vr : Type} (O : VSOps VS Vr) (L : VSLawful O) (veqb : Vr -> Vr -> bool).

  Notation tm := (term VS).
  Notation pa := (@pa VS Vr).
  Notation dated := (@dated VS).
  Notation psol := (@psol VS Vr).
  Notation state := (@state VS Vr).
  Notation incompat := (@incompat VS Vr).
  Notation event := (@event VS Vr).
  Notation outcome := (@outcome VS Vr).
  Notation pick_info := (@pick_info VS).
  Notation twf := (twf O L).
  Notation twf_all := (twf_all O L).
  Notation ps_wf := (ps_wf O L).
  Notation wfs := (wf O L).
  Notation tden := (tden O L).

  (* ================================================================ T-b: the first version query *)
  Definition is_choose (e : event) : bool := match e with EvChoose _ _ _ => true | _ => false end.

  (* the state after the first unit propagation: the root is derived to be exactly the requested version *)
  Definition pa_root (rv : Vr) : pa :=
    {| smallest := 0; highest := 0;
       derivs := [{| d_gidx := 0; d_level := 0; d_cause := 0; d_accum := Pos (vs_singleton O rv) |}];
       ai := ADerivations (Pos (vs_singleton O rv)) |}.
  Definition ps_first (r : pkg) (rv : Vr) : psol :=
    {| next_gidx := 1; level := 0; assignments := [(r, pa_root rv)]; queue := []; changed := 0; backtracked := false |}.
  Definition st_first (r : pkg) (rv : Vr) : state :=
    upd_cache (upd_ps (state_init O r rv) (ps_first r rv)) [(0, 0)].

  Lemma scan_first r rv :
    scan_incompats O [0] (state_init O r rv) [] = Good (st_first r rv, [r], None).
  Proof.
    cbn. unfold add_derivation. cbn. rewrite N.eqb_refl. reflexivity.
  Qed.

  Lemma scan_second r rv :
    scan_incompats O [0] (st_first r rv) [] = Good (st_first r rv, [], None).
  Proof. reflexivity. Qed.

  Lemma up_first fuel r rv :
    unit_propagation O fuel (state_init O r rv) [r] = inr EFuel
    \/ unit_propagation O fuel (state_init O r rv) [r] = inl (UPOk (st_first r rv)).
  Proof.
    destruct fuel as [|fuel]; [now left|].
    assert (Hix : get r (index (st_first r rv)) = Some [0]) by (cbn; now rewrite N.eqb_refl).
    assert (Hix0 : get r (index (state_init O r rv)) = Some [0]) by (cbn; now rewrite N.eqb_refl).
    remember (state_init O r rv) as st0 eqn:E0.
    cbn [unit_propagation rev app]. rewrite Hix0. cbn [rev app]. rewrite E0, scan_first.
    destruct fuel as [|fuel]; [now left|].
    cbn [unit_propagation rev app]. rewrite Hix. cbn [rev app]. rewrite scan_second.
    destruct fuel as [|fuel]; [now left|]. right. reflexivity.
  Qed.

  Definition no_choose_before (tr : list event) (cnt : nat) : Prop :=
    forall i e, i < cnt -> nth_error tr i = Some e -> is_choose e = false.

  Ltac exk :=
    let E := fresh "E" in let Hn := fresh "Hn" in
    intros E; injection E as _ _ _ <-; left; intros i e Hi Hn;
    destruct i as [|[|i]]; try lia; cbn in Hn; try discriminate; try (injection Hn as <-; reflexivity).

  Ltac fin3 :=
    let E := fresh "E" in let Hk := fresh "Hk" in
    intros E;
    first [ injection E as _ _ _ <-; lia
          | match type of E with
            | resolve_loop ?O' ?v ?f ?s ?nx ?ad ?t ?n ?lg = _ =>
                pose proof (proj1 (resolve_loop_shape O' v f s nx ad t n lg)) as Hk; cbn zeta in Hk; rewrite E in Hk;
                cbn [snd] in Hk; lia
            end ].

  (* the run either consumes no choose_version call at all, or starts with cancel, prioritize(root, {rv}),
     choose_version(root, {rv}) *)
  Lemma resolve_head fuel r rv (tr : list event) o st log cnt :
    resolve O veqb fuel r rv tr = (o, st, log, cnt) ->
    no_choose_before tr cnt
    \/ exists z a tr3,
         tr = EvCancel true :: EvPrioritize r (vs_singleton O rv) z :: EvChoose r (vs_singleton O rv) a :: tr3 /\ 3 <= cnt.
  Proof.
    unfold resolve. destruct fuel as [|fuel]; cbn [resolve_loop]; [exk|].
    destruct tr as [|[ok| | |] tr1]; try exk.
    destruct ok; cbn [negb]; [|exk].
    destruct (up_first (S fuel) r rv) as [-> | ->]; [exk|].
    assert (Hpc : pick_candidates (ps (st_first r rv)) = [(r, vs_singleton O rv)]) by reflexivity.
    rewrite Hpc. clear Hpc. cbn [do_prioritize].
    destruct tr1 as [|[| p' s' z | |] tr2]; try exk.
    destruct (N.eqb_spec r p') as [<-|]; cbn [andb]; [|exk].
    destruct (vs_eqb O (vs_singleton O rv) s') eqn:Es; [|exk]. apply (vs_eqb_spec O L) in Es. subst s'.
    cbn [ps st_first upd_cache upd_ps ps_first queue set queue_max fold_left].
    destruct tr2 as [|[| |p s ans|] tr3]; try exk.
    cbn [get]. destruct (N.eqb_spec p r) as [->|]; [|exk].
    rewrite Z.eqb_refl. cbn [negb].
    unfold term_for. cbn [assignments ps_first get]. rewrite N.eqb_refl. cbn [option_map ai_term ai pa_root].
    destruct (vs_eqb O s (vs_singleton O rv)) eqn:Es; cbn [negb]; [|exk]. apply (vs_eqb_spec O L) in Es. subst s.
    intros E. right. exists z, ans, tr3. split; [reflexivity|]. revert E.
    destruct ans as [v| |].
    - destruct (negb (t_contains O _ v)); [fin3|].
      destruct (added_has veqb [] r v).
      + unfold res_out. destruct (add_decision O _ r v); fin3.
      + destruct tr3 as [|[| | |p' v' dans] tr4]; try fin3.
        destruct (negb (N.eqb r p' && veqb v v')); [fin3|].
        destruct dans as [deps|m|]; [| |fin3].
        * unfold res_out. destruct (add_incompatibility_from_dependencies O _ r v deps) as [[st3 range]|]; [|fin3].
          destruct (add_version O (ps st3) r v range (store st3)); fin3.
        * unfold res_out. destruct (add_incompatibility O _ (custom_version O r v m)); fin3.
    - destruct (no_versions r _); [|fin3]. unfold res_out. destruct (add_incompatibility O _ i); fin3.
    - fin3.
  Qed.

  (* T-b *)
  Theorem resolve_first_choose fuel r rv (tr : list event) o st log cnt i p s a :
    resolve O veqb fuel r rv tr = (o, st, log, cnt) ->
    i < cnt -> nth_error tr i = Some (EvChoose p s a) ->
    (forall j e, j < i -> nth_error tr j = Some e -> is_choose e = false) ->
    p = r /\ s = vs_singleton O rv /\ i = 2
    /\ exists z, firstn i tr = [EvCancel true; EvPrioritize r (vs_singleton O rv) z].
  Proof.
    intros Er Hi Hn Hmin. destruct (resolve_head _ _ _ _ _ _ _ _ Er) as [Hno|(z & a0 & tr3 & -> & Hc)].
    - specialize (Hno i _ Hi Hn). discriminate.
    - destruct i as [|[|[|i]]]; try discriminate.
      + injection Hn as <- <- _. repeat split; try reflexivity. exists z. reflexivity.
      + exfalso. specialize (Hmin 2 _ ltac:(lia) eq_refl). discriminate.
  Qed.

  (* the same without the minimality hypothesis: whenever a choose_version call is consumed, the call at position 2
     is choose_version(root, {rv}), preceded by exactly cancel and prioritize(root, {rv}), and no earlier call is a
     choose_version *)
  Corollary resolve_first_choose_pos fuel r rv (tr : list event) o st log cnt i p s a :
    resolve O veqb fuel r rv tr = (o, st, log, cnt) ->
    i < cnt -> nth_error tr i = Some (EvChoose p s a) ->
    2 <= i /\ exists z a0,
      firstn 3 tr = [EvCancel true; EvPrioritize r (vs_singleton O rv) z; EvChoose r (vs_singleton O rv) a0].
  Proof.
    intros Er Hi Hn. destruct (resolve_head _ _ _ _ _ _ _ _ Er) as [Hno|(z & a0 & tr3 & -> & Hc)].
    - specialize (Hno i _ Hi Hn). discriminate.
    - split; [destruct i as [|[|i]]; [discriminate|discriminate|lia]|]. exists z, a0. reflexivity.
  Qed.

  (* ================================================================ T-c: no Failure outcome *)
  (* every queued package has an assignment *)
  Definition qasg (p : psol) : Prop := forall x e, get x (queue p) = Some e -> get x (assignments p) <> None.

  Lemma add_derivation_qasg p q cause cts p' : add_derivation O p q cause cts = Good p' -> qasg p -> qasg p'.
  Proof.
    intros E H x e Hg. destruct (add_derivation_get O _ _ _ _ _ E) as (ct & a' & _ & _ & Eq & Hget & _).
    rewrite Eq in Hg. rewrite Hget. destruct (N.eqb x q); [discriminate|]. eapply H; eauto.
  Qed.

  Lemma add_decision_qasg p q v p' : layout p -> add_decision O p q v = Good p' -> qasg p -> qasg p'.
  Proof.
    intros Hl E H x e Hg. destruct (add_decision_get O _ _ _ _ Hl E) as (a & t & _ & _ & _ & _ & Eq & Hget).
    rewrite Eq in Hg. rewrite Hget. destruct (N.eqb x q); [discriminate|]. eapply H; eauto.
  Qed.

  Lemma ps_backtrack_qasg (p : psol) Lv p' : ps_backtrack p Lv = Good p' -> qasg p'.
  Proof.
    intros E. destruct (ps_backtrack_asg _ _ _ E) as (_ & Eq & _). intros x e H. rewrite Eq in H. discriminate.
  Qed.

  Lemma backtrack_qasg st inc chg Lv st' : backtrack O st inc chg Lv = Good st' -> qasg (ps st').
  Proof.
    unfold backtrack, bind. destruct (ps_backtrack (ps st) Lv) as [p'|] eqn:Ep; [|discriminate].
    pose proof (ps_backtrack_qasg _ _ _ Ep) as H. destruct chg.
    - intros E. now rewrite (merge_incompatibility_ps _ _ _ _ E).
    - intros E. now injection E as <-.
  Qed.

  Lemma conflict_resolution_qasg fuel : forall st cur chg,
    qasg (ps st) ->
    match conflict_resolution O fuel st cur chg with
    | inl (CROk st' _ _) => qasg (ps st')
    | inl (CRTerminal st' _) => qasg (ps st')
    | inr _ => True
    end.
  Proof.
    induction fuel as [|fuel IH]; intros st cur chg Hst; cbn [conflict_resolution]; [exact I|].
    destruct (nth_error (store st) cur) as [ci|]; [|exact I].
    destruct (is_terminal O ci (root st) (rootv st)); [exact Hst|].
    destruct (satisfier_search O (terms ci) (ps st) (store st)) as [[p [Lv|cause]]|]; [| |exact I].
    - destruct (backtrack O st cur chg Lv) as [st'|] eqn:Eb; [|exact I]. eapply backtrack_qasg; eauto.
    - destruct (nth_error (store st) cause) as [cj|]; [|exact I].
      destruct (prior_cause O cur cause (terms ci) (terms cj) p) as [pc|]; [|exact I].
      cbn [alloc]. apply IH. exact Hst.
  Qed.

  Lemma scan_incompats_qasg ids : forall st buffer st' b' c,
    qasg (ps st) -> scan_incompats O ids st buffer = Good (st', b', c) -> qasg (ps st').
  Proof.
    induction ids as [|id ids IH]; intros st buffer st' b' c Hst; cbn [scan_incompats].
    - intros E. now injection E as <- _ _.
    - destruct (cached id (contradicted st)); [now apply IH|].
      unfold bind, req. destruct (nth_error (store st) id) as [ci|]; [|discriminate].
      destruct (relation O (terms ci) (term_for (ps st))) as [| |q|].
      + intros E. now injection E as <- _ _.
      + now apply IH.
      + destruct (add_derivation O (ps st) q id (terms ci)) as [p'|] eqn:Ed; [|discriminate].
        apply IH; cbn [ps upd_cache upd_ps]. eapply add_derivation_qasg; eauto.
      + now apply IH.
  Qed.

  Lemma unit_propagation_qasg fuel : forall st buffer,
    qasg (ps st) ->
    match unit_propagation O fuel st buffer with
    | inl (UPOk st') => qasg (ps st')
    | inl (UPConflict st' _) => qasg (ps st')
    | inr _ => True
    end.
  Proof.
    induction fuel as [|fuel IH]; intros st buffer Hst; cbn [unit_propagation]; [exact I|].
    destruct (rev buffer) as [|cur rest]; [exact Hst|].
    destruct (get cur (index st)) as [ids|]; [|exact I].
    destruct (scan_incompats O (rev ids) st (rev rest)) as [[[st1 b2] [conflict|]]|] eqn:Es; [| |exact I].
    - pose proof (scan_incompats_qasg _ _ _ _ _ _ Hst Es) as H1.
      pose proof (conflict_resolution_qasg fuel st1 conflict false H1) as Hcr.
      destruct (conflict_resolution O fuel st1 conflict false) as [[st2 q rc|st2 id]|]; [|exact Hcr|exact I].
      destruct (nth_error (store st2) rc) as [rci|]; [|exact I].
      destruct (add_derivation O (ps st2) q rc (terms rci)) as [p'|] eqn:Ed; [|exact I].
      apply IH; cbn [ps upd_cache upd_ps]. eapply add_derivation_qasg; eauto.
    - apply IH. exact (scan_incompats_qasg _ _ _ _ _ _ Hst Es).
  Qed.

  (* the queue after re-prioritisation only holds assigned packages *)
  Lemma pick_qasg (p1 : psol) q (tr tr2 : list event) n n2 x e :
    qasg p1 -> do_prioritize O (pick_candidates p1) (queue p1) tr n = inl (q, tr2, n2) ->
    get x q = Some e -> get x (assignments p1) <> None.
  Proof.
    intros Hq Ep Hg. destruct (do_prioritize_get O _ _ _ _ _ _ _ Ep) as [I1 _].
    destruct (in_dec N.eq_dec x (map fst (pick_candidates p1))) as [Hin|Hni].
    - apply in_map_iff in Hin. destruct Hin as ([x' s] & Ex & Hin). cbn in Ex. subst x'.
      destruct (pick_candidates_in veqb p1 x s Hin) as (i & a & Hn & _).
      apply nth_error_In in Hn. intros Hnone. apply get_None in Hnone. apply Hnone.
      apply in_map_iff. exists (x, a). auto.
    - rewrite (I1 x Hni) in Hg. eapply Hq; eauto.
  Qed.

  (* choose_version answers a version of the offered set *)
  Definition ev_inside (e : event) : Prop :=
    match e with EvChoose _ s (CSome v) => vs_contains O s v = true | _ => True end.
  Definition ChooseInside (tr : list event) : Prop := Forall ev_inside tr.

  Definition nofail (tr : list event) (res : @result VS Vr) : Prop :=
    let o := fst (fst (fst res)) in
    o <> OFailure FNoTerm /\ (ChooseInside tr -> o <> OFailure FIncompatibleVersion).

  Lemma nofail_weaken (tr tr' : list event) res : (ChooseInside tr -> ChooseInside tr') -> nofail tr' res -> nofail tr res.
  Proof. intros H [H1 H2]. split; [exact H1|]. intros Hc. apply H2, H, Hc. Qed.

  Ltac okf := split; [cbn [fst]; discriminate|intros _; cbn [fst]; discriminate].

  Lemma resolve_loop_nofail fuel : forall st next added (tr : list event) n log,
    layout (ps st) -> qasg (ps st) -> nofail tr (resolve_loop O veqb fuel st next added tr n log).
  Proof.
    induction fuel as [|fuel IH]; intros st next added tr n log Hl Hq; cbn [resolve_loop]; [okf|].
    destruct tr as [|[ok| | |] tr1]; try okf.
    destruct ok; cbn [negb]; [|okf].
    pose proof (unit_propagation_inv O (S fuel) st [next] anyp (layout_qinv st Hl)) as Hul.
    pose proof (unit_propagation_qasg (S fuel) st [next] Hq) as Huq.
    destruct (unit_propagation O (S fuel) st [next]) as [[st1|st1 id]|[|s0]]; try okf.
    2:{ destruct (build_derivation_tree (store st1) id); okf. }
    destruct Hul as [Hl1 _].
    destruct (do_prioritize O (pick_candidates (ps st1)) (queue (ps st1)) tr1 (S n)) as [[[q tr2] n2]|o] eqn:Ep.
    2:{ pose proof (do_prioritize_err_count O _ _ _ _ _ Ep) as Hm. destruct o; try discriminate. okf. }
    destruct (do_prioritize_count O _ _ _ _ _ _ _ Ep) as (pre & -> & _ & ->).
    assert (Hci : ChooseInside (EvCancel true :: pre ++ tr2) -> ChooseInside tr2).
    { intros H. apply Forall_inv_tail in H. apply Forall_app in H. tauto. }
    destruct (queue_max q) as [mx|].
    2:{ unfold res_out. destruct (extract_solution (ps st1)); okf. }
    destruct tr2 as [|[| |p s ans|] tr3]; try okf.
    destruct (get p q) as [[prio qs]|] eqn:Egp; [|okf].
    destruct (negb (Z.eqb prio mx)); [okf|].
    pose proof (pick_qasg _ _ _ _ _ _ _ _ Huq Ep Egp) as Hasg.
    set (st2 := upd_ps st1 _).
    assert (Hl2 : layout (ps st2)) by (eapply layout_ext; [| |exact Hl1]; reflexivity).
    assert (Hq2 : qasg (ps st2)).
    { intros x e Hg. cbn [st2 ps upd_ps queue assignments] in *. destruct (N.eq_dec p x) as [<-|Hne].
      - now rewrite get_remove_same in Hg.
      - rewrite get_remove_other in Hg by exact Hne. exact (pick_qasg _ _ _ _ _ _ _ _ Huq Ep Hg). }
    unfold term_for. change (assignments (ps st2)) with (assignments (ps st1)).
    destruct (get p (assignments (ps st1))) as [a|]; [|congruence]. cbn [option_map].
    destruct (ai_term (ai a)) as [cur|cur]; [|okf].
    destruct (vs_eqb O s cur) eqn:Es; cbn [negb]; [|okf]. apply (vs_eqb_spec O L) in Es. subst cur.
    assert (Hrec : forall st' nxt added' (tr' : list event) n' lg,
               layout (ps st') -> qasg (ps st') ->
               (ChooseInside (EvChoose p s ans :: tr3) -> ChooseInside tr') ->
               nofail (EvCancel true :: pre ++ EvChoose p s ans :: tr3) (resolve_loop O veqb fuel st' nxt added' tr' n' lg)).
    { intros st' nxt added' tr' n' lg H1 H2 H3. eapply nofail_weaken; [|apply IH; assumption]. intros H. apply H3, Hci, H. }
    assert (Ht3 : ChooseInside (EvChoose p s ans :: tr3) -> ChooseInside tr3) by apply Forall_inv_tail.
    destruct ans as [v| |]; [| |okf].
    - destruct (t_contains O (Pos s) v) eqn:Ev; cbn [negb].
      2:{ split; [cbn [fst]; discriminate|]. intros Hc. exfalso. apply Hci, Forall_inv in Hc. cbn in Hc, Ev. congruence. }
      destruct (added_has veqb added p v).
      + unfold res_out. destruct (add_decision O (ps st2) p v) as [p'|] eqn:Ed; [|okf].
        apply Hrec; [exact (add_decision_layout O _ _ _ _ Hl2 Ed)|exact (add_decision_qasg _ _ _ _ Hl2 Ed Hq2)|exact Ht3].
      + destruct tr3 as [|[| | |p' v' dans] tr4]; try okf.
        destruct (N.eqb p p' && veqb v v'); cbn [negb]; [|okf].
        assert (Ht4 : ChooseInside (EvChoose p s (CSome v) :: EvDeps p' v' dans :: tr4) -> ChooseInside tr4)
          by (intros H; apply Forall_inv_tail, Forall_inv_tail in H; exact H).
        destruct dans as [deps|m|]; [| |okf].
        * unfold res_out.
          destruct (add_incompatibility_from_dependencies O st2 p v deps) as [[st3 range]|] eqn:Ea; [|okf].
          destruct (add_version O (ps st3) p v range (store st3)) as [pn|] eqn:Eav; [|okf].
          pose proof (add_from_dependencies_ps _ _ _ _ _ _ _ Ea) as Eps. rewrite Eps in Eav.
          destruct (add_version_cases _ _ _ _ _ _ _ Eav) as [Ed|[-> _]].
          -- apply Hrec; [exact (add_decision_layout O _ _ _ _ Hl2 Ed)|exact (add_decision_qasg _ _ _ _ Hl2 Ed Hq2)|exact Ht4].
          -- apply Hrec; [exact Hl2|exact Hq2|exact Ht4].
        * unfold res_out.
          destruct (add_incompatibility O st2 (custom_version O p v m)) as [st3|] eqn:Ea; [|okf].
          pose proof (add_incompatibility_ps _ _ _ _ Ea) as Eps.
          apply Hrec; [rewrite Eps; exact Hl2|rewrite Eps; exact Hq2|exact Ht4].
    - cbn [no_versions]. unfold res_out.
      destruct (add_incompatibility O st2 _) as [st3|] eqn:Ea; [|okf].
      pose proof (add_incompatibility_ps _ _ _ _ Ea) as Eps.
      apply Hrec; [rewrite Eps; exact Hl2|rewrite Eps; exact Hq2|exact Ht3].
  Qed.

  (* T-c, part 1: the model never fails for lack of a term, whatever the provider answers *)
  Theorem resolve_no_failure_noterm fuel r rv (tr : list event) o st log cnt :
    resolve O veqb fuel r rv tr = (o, st, log, cnt) -> o <> OFailure FNoTerm.
  Proof.
    intros Er. pose proof (resolve_loop_nofail fuel (state_init O r rv) r [] tr 0 [] (ps_empty_layout (VS := VS) (Vr := Vr))) as H.
    unfold resolve in Er. rewrite Er in H. apply H. intros x e Hg. discriminate.
  Qed.

  (* T-c, part 2: with a provider whose choose_version answers lie in the offered set there is no Failure at all *)
  Theorem resolve_no_failure_inside fuel r rv (tr : list event) o st log cnt f :
    ChooseInside tr -> resolve O veqb fuel r rv tr = (o, st, log, cnt) -> o <> OFailure f.
  Proof.
    intros Hc Er. pose proof (resolve_loop_nofail fuel (state_init O r rv) r [] tr 0 [] (ps_empty_layout (VS := VS) (Vr := Vr))) as H.
    unfold resolve in Er. rewrite Er in H. destruct H as [H1 H2]; [intros x e Hg; discriminate|].
    destruct f; [exact H1|exact (H2 Hc)].
  Qed.

  (* the statement with the registry vocabulary *)
  Definition WellBehaved5 (reg : registry (VS := VS) (Vr := Vr)) (tr : list event) : Prop :=
    WellBehaved O reg tr /\ ChooseInside tr.

  Corollary resolve_no_failure reg fuel r rv (tr : list event) o st log cnt f :
    WellBehaved5 reg tr -> resolve O veqb fuel r rv tr = (o, st, log, cnt) -> o <> OFailure f.
  Proof. intros [_ Hc]. now apply resolve_no_failure_inside. Qed.

  (* ================================================================ T-a: the offered set is never empty *)
  (* ---------------------------------------------------------------- non-empty terms (over the universe U) *)
  (* a term is non-empty when it is not false on every choice; for a positive term over a well-formed set this is
     "the set is not vs_empty" ([tne_pos]) *)
  Definition tne (t : tm) : Prop := ~ (forall c, tden t c = false).

  Lemma tne_neg s : tne (Neg s).
  Proof. intros H. specialize (H None). discriminate. Qed.

  Lemma empty_mem s : wfs s -> (s = vs_empty O <-> forall u, mem O L s u = false).
  Proof.
    intros W. split.
    - intros -> u. apply (mem_empty O L).
    - intros H. apply (vs_ext O L); [exact W|apply (wf_empty O L)|]. intros u. now rewrite H, (mem_empty O L).
  Qed.

  Lemma tne_pos s : wfs s -> (tne (Pos s) <-> s <> vs_empty O).
  Proof.
    intros W. unfold tne. rewrite (empty_mem s W). split.
    - intros H Hu. apply H. intros [u|]; cbn; [apply Hu|reflexivity].
    - intros H Hc. apply H. intros u. exact (Hc (Some u)).
  Qed.

  Lemma singleton_not_empty v : vs_singleton O v <> vs_empty O.
  Proof.
    intros E. pose proof (proj2 (mem_singleton O L v v) eq_refl) as H. rewrite E, (mem_empty O L) in H. discriminate.
  Qed.

  Lemma tne_exact v : tne (t_exact O v).
  Proof. apply tne_pos; [apply (wf_singleton O L)|apply singleton_not_empty]. Qed.

  Lemma tne_negate ct : twf ct -> ct <> t_any O -> tne (t_negate ct).
  Proof.
    destruct ct as [s|s]; cbn [t_negate]; intros W Hne; [apply tne_neg|].
    apply tne_pos; [exact W|]. intros ->. now apply Hne.
  Qed.

  Lemma tne_inter_not_satisfied t ct :
    twf t -> twf ct -> t_relation_with O ct t <> Satisfied -> tne (t_intersection O t (t_negate ct)).
  Proof.
    intros Wt Wc Hr Hall. apply Hr. apply satisfied_subset. apply (t_subset_of_spec O L); [exact Wt|exact Wc|].
    intros c Hc. specialize (Hall c). rewrite (tden_intersection O L), (tden_negate O L), Hc in Hall
      by (try assumption; now apply (twf_negate O L)).
    cbn in Hall. now apply negb_false_iff in Hall.
  Qed.

  Lemma tne_inter_not_disjoint t u : twf t -> twf u -> t_is_disjoint O t u = false -> tne (t_intersection O t u).
  Proof.
    intros Wt Wu Hd Hall. assert (H : t_is_disjoint O t u = true); [|congruence].
    apply (t_is_disjoint_spec O L); [exact Wt|exact Wu|]. intros c. rewrite <- (tden_intersection O L) by assumption. apply Hall.
  Qed.

  (* ---------------------------------------------------------------- the store: distinct packages, no "any" term *)
  Definition notany (ts : list (pkg * tm)) : Prop := Forall (fun e => snd e <> t_any O) ts.
  Definition inc_good (ci : incompat) : Prop := NoDup (keys (terms ci)) /\ notany (terms ci).
  Definition sgood (st : state) : Prop := Forall inc_good (store st).

  Lemma sgood_nth st id ci : sgood st -> nth_error (store st) id = Some ci -> inc_good ci.
  Proof. intros H Hn. unfold sgood in H. rewrite Forall_forall in H. apply H. eapply nth_error_In; eauto. Qed.

  Lemma pos_not_any s : Pos s <> t_any O.
  Proof. discriminate. Qed.

  Lemma single_pos_good p s k : inc_good {| terms := [(p, Pos s)]; ikind := k |}.
  Proof.
    split; cbn [terms].
    - constructor; [intros []|constructor].
    - constructor; [apply pos_not_any|constructor].
  Qed.

  Lemma not_root_good r rv : inc_good (not_root O r rv).
  Proof.
    split; cbn [terms not_root].
    - constructor; [intros []|constructor].
    - constructor; [|constructor]. cbn. intros E. injection E as E. exact (singleton_not_empty rv E).
  Qed.

  Lemma from_dependency_good p s d sd : inc_good (from_dependency O p s (d, sd)).
  Proof.
    unfold from_dependency, inc_good. cbn [terms]. destruct (vs_eqb O sd (vs_empty O)) eqn:Ee.
    - split; [constructor; [intros []|constructor]|constructor; [apply pos_not_any|constructor]].
    - destruct (N.eqb_spec p d) as [<-|Hne].
      + split; [constructor; [intros []|constructor]|constructor; [apply pos_not_any|constructor]].
      + split.
        * constructor; [cbn; intuition congruence|constructor; [intros []|constructor]].
        * constructor; [apply pos_not_any|]. constructor; [|constructor]. cbn. intros E. injection E as ->.
          assert (H : vs_eqb O (vs_empty O) (vs_empty O) = true) by now apply (vs_eqb_spec O L). congruence.
  Qed.

  Lemma merge_dependents_good (self other mi : incompat) : merge_dependents O self other = Good (Some mi) -> inc_good mi.
  Proof.
    unfold merge_dependents.
    destruct (as_dependency self) as [[p1 p2]|]; [|discriminate].
    destruct (as_dependency other) as [[q1 q2]|]; [|discriminate].
    destruct (negb _); [discriminate|]. destruct (N.eqb p1 p2); [discriminate|].
    destruct (negb _); [discriminate|]. unfold bind, req.
    destruct (get p1 (terms self)) as [t1|]; [|discriminate].
    destruct (get p1 (terms other)) as [t2|]; [|discriminate].
    destruct t1 as [s1|]; [|discriminate]. destruct t2 as [s2|]; [|discriminate]. cbn [unwrap_positive].
    destruct (get p2 (terms self)) as [[|ds]|]; [discriminate| |]; cbn [unwrap_negative];
      intros E; injection E as <-; apply from_dependency_good.
  Qed.

  Lemma find_merge_good (cur : incompat) pasts (stl : list incompat) past mi :
    find_merge O cur pasts stl = Good (Some (past, mi)) -> inc_good mi.
  Proof.
    induction pasts as [|x pasts IH]; cbn [find_merge]; [discriminate|].
    unfold bind, req. destruct (nth_error stl x) as [pi|]; [|discriminate].
    destruct (merge_dependents O cur pi) as [[m|]|] eqn:Em; [| |discriminate].
    - intros H. injection H as <- <-. eapply merge_dependents_good; eauto.
    - exact IH.
  Qed.

  Lemma merge_incompatibility_sgood st id st' : sgood st -> merge_incompatibility O st id = Good st' -> sgood st'.
  Proof.
    intros Hs. unfold merge_incompatibility, bind, req.
    destruct (nth_error (store st) id) as [cur|]; [|discriminate].
    destruct (as_dependency cur) as [key|].
    - destruct (find_merge O cur _ (store st)) as [[[past mi]|]|] eqn:Ef; [| |discriminate].
      + destruct (has_any O (terms mi)); [discriminate|]. intros E. injection E as <-. unfold sgood; cbn [store].
        apply Forall_app. split; [exact Hs|]. constructor; [|constructor]. eapply find_merge_good; eauto.
      + destruct (has_any O (terms cur)); [discriminate|]. intros E. injection E as <-. exact Hs.
    - destruct (has_any O (terms cur)); [discriminate|]. intros E. injection E as <-. exact Hs.
  Qed.

  Lemma alloc_sgood st (i : incompat) : sgood st -> inc_good i -> sgood (fst (alloc st i)).
  Proof.
    intros Hs Hi. unfold sgood, alloc; cbn [fst store]. apply Forall_app. split; [exact Hs|]. constructor; [exact Hi|constructor].
  Qed.

  Lemma add_incompatibility_sgood st i st' : sgood st -> inc_good i -> add_incompatibility O st i = Good st' -> sgood st'.
  Proof.
    intros Hs Hi. unfold add_incompatibility. cbn. intros E. eapply merge_incompatibility_sgood; [|exact E].
    exact (alloc_sgood st i Hs Hi).
  Qed.

  Lemma merge_range_sgood ids : forall st st', sgood st -> merge_range O st ids = Good st' -> sgood st'.
  Proof.
    induction ids as [|id ids IH]; intros st st' Hs; cbn [merge_range].
    - intros E. now injection E as <-.
    - unfold bind. destruct (merge_incompatibility O st id) as [st1|] eqn:Em; [|discriminate].
      apply IH. eapply merge_incompatibility_sgood; eauto.
  Qed.

  Lemma add_from_dependencies_sgood st p v deps st' range :
    sgood st -> add_incompatibility_from_dependencies O st p v deps = Good (st', range) -> sgood st'.
  Proof.
    intros Hs. unfold add_incompatibility_from_dependencies, bind.
    destruct (merge_range O _ _) as [st2|] eqn:Em; [|discriminate]. intros E. injection E as <- _.
    eapply merge_range_sgood; [|exact Em]. unfold sgood; cbn [store]. apply Forall_app. split; [exact Hs|].
    apply Forall_forall. intros i Hi. apply in_map_iff in Hi. destruct Hi as ([d sd] & <- & _). apply from_dependency_good.
  Qed.

  Lemma inter_not_any t u : twf t -> twf u -> t <> t_any O -> t_intersection O t u <> t_any O.
  Proof.
    destruct t as [a|a], u as [b|b]; cbn [t_intersection TermProofs.twf]; intros Wa Wb Hne; try discriminate.
    intros E. injection E as E. apply Hne. unfold t_any. f_equal. apply (empty_mem a Wa). intros x.
    assert (H : mem O L (vs_union O a b) x = false) by (rewrite E; apply (mem_empty O L)).
    rewrite (mem_union O L) in H by assumption. now apply orb_false_elim in H.
  Qed.

  Lemma notany_get (ts : list (pkg * tm)) p t : notany ts -> get p ts = Some t -> t <> t_any O.
  Proof. intros H Hg. apply get_In in Hg. unfold notany in H. rewrite Forall_forall in H. exact (H _ Hg). Qed.

  Lemma remove_notany p (m : list (pkg * tm)) : notany m -> notany (remove p m).
  Proof.
    induction m as [|[k t] m IH]; cbn; intros H; [constructor|]. inversion H as [|? ? H1 H2]; subst.
    destruct (N.eqb p k); [now apply IH|constructor; [exact H1|now apply IH]].
  Qed.

  Lemma merge_terms_notany (other : list (pkg * tm)) : forall m,
    twf_all m -> twf_all other -> notany m -> notany other -> notany (merge_terms O m other).
  Proof.
    induction other as [|[k t2] other IH]; intros m Wm Wo Hm Ho; cbn [merge_terms]; [exact Hm|].
    inversion Wo as [|? ? W2 Wo']; subst. inversion Ho as [|? ? N2 Ho']; subst. cbn [snd] in *.
    destruct (get k m) as [t1|] eqn:E.
    - pose proof (SolverQueue2.twf_all_get O L _ _ _ Wm E) as W1.
      apply IH; [apply set_wf; [now apply (twf_intersection O L)|exact Wm]|exact Wo'| |exact Ho'].
      apply (set_forall (fun t => t <> t_any O)); [|exact Hm].
      apply inter_not_any; [exact W1|exact W2|]. exact (notany_get m k t1 Hm E).
    - apply IH; [|exact Wo'| |exact Ho'].
      + apply Forall_app. split; [exact Wm|constructor; [exact W2|constructor]].
      + apply Forall_app. split; [exact Hm|constructor; [exact N2|constructor]].
  Qed.

  Lemma prior_cause_good i j ti tj p pc :
    twf_all ti -> twf_all tj -> NoDup (keys ti) -> notany ti -> notany tj ->
    prior_cause O i j ti tj p = Good pc -> inc_good pc.
  Proof.
    intros Wi Wj Ni Ai Aj. unfold prior_cause, bind, req.
    destruct (get p ti) as [t1|] eqn:E1; [|discriminate]. destruct (get p tj) as [t2|] eqn:E2; [|discriminate].
    intros E. injection E as <-. unfold inc_good. cbn [terms].
    assert (Nr : NoDup (keys (merge_terms O (remove p ti) (remove p tj)))) by (apply merge_terms_nodup, nodup_remove, Ni).
    assert (Ar : notany (merge_terms O (remove p ti) (remove p tj))).
    { apply merge_terms_notany; try (now apply remove_wf); now apply remove_notany. }
    destruct (t_eqb O _ _) eqn:Et; [split; assumption|]. split; [now apply nodup_set|].
    apply (set_forall (fun t => t <> t_any O)); [|exact Ar]. intros E. apply (t_eqb_spec O L) in E. congruence.
  Qed.

  (* ---------------------------------------------------------------- the partial solution only holds non-empty terms *)
  Definition pa_ne (a : pa) : Prop := tne (ai_term (ai a)) /\ Forall (fun dd : dated => tne (d_accum dd)) (derivs a).
  Definition NE (p : psol) : Prop := forall q a, get q (assignments p) = Some a -> pa_ne a.

  (* reading [relation = RAlmost q]: the term of q is the only one that is not satisfied, and it is inconclusive *)
  Definition unsat (lookup : pkg -> option tm) (e : pkg * tm) : bool :=
    match option_map (t_relation_with O (snd e)) (lookup (fst e)) with Some Satisfied => false | _ => true end.

  Lemma relation_scan_spec lookup (ts : list (pkg * tm)) : forall incs l,
    relation_scan O ts lookup incs = Some l ->
    l = incs ++ map fst (filter (unsat lookup) ts)
    /\ forall p t o, In (p, t) ts -> lookup p = Some o -> t_relation_with O t o <> Contradicted.
  Proof.
    induction ts as [|[p t] ts IH]; intros incs l; cbn [relation_scan filter].
    - intros E. injection E as <-. split; [now rewrite app_nil_r|intros ? ? ? []].
    - assert (Hu : unsat lookup (p, t)
                   = match option_map (t_relation_with O t) (lookup p) with Some Satisfied => false | _ => true end) by reflexivity.
      rewrite Hu. clear Hu.
      assert (Hhd : forall r0, option_map (t_relation_with O t) (lookup p) = r0 -> r0 <> Some Contradicted ->
                forall ts' (I2 : forall p0 t0 o0, In (p0, t0) ts' -> lookup p0 = Some o0 -> t_relation_with O t0 o0 <> Contradicted),
                forall p0 t0 o0, In (p0, t0) ((p, t) :: ts') -> lookup p0 = Some o0 -> t_relation_with O t0 o0 <> Contradicted).
      { intros r0 Er Hr ts' I2 p0 t0 o0 [H|H] Hl; [|eauto]. injection H as <- <-. rewrite Hl in Er. cbn in Er. congruence. }
      destruct (option_map (t_relation_with O t) (lookup p)) as [[| |]|] eqn:Eo.
      + intros E. destruct (IH _ _ E) as [I1 I2]. split; [exact I1|]. eapply Hhd; [reflexivity|discriminate|exact I2].
      + discriminate.
      + intros E. destruct (IH _ _ E) as [I1 I2]. split; [rewrite I1, <- app_assoc; reflexivity|].
        eapply Hhd; [reflexivity|discriminate|exact I2].
      + intros E. destruct (IH _ _ E) as [I1 I2]. split; [rewrite I1, <- app_assoc; reflexivity|].
        eapply Hhd; [reflexivity|discriminate|exact I2].
  Qed.

  Lemma relation_almost_inv (ts : list (pkg * tm)) lookup q :
    NoDup (keys ts) -> relation O ts lookup = RAlmost q ->
    exists t, get q ts = Some t /\ forall o, lookup q = Some o -> t_relation_with O t o = Inconclusive.
  Proof.
    intros Hnd. unfold relation. destruct (relation_scan O ts lookup []) as [l|] eqn:E; [|discriminate].
    destruct (relation_scan_spec _ _ _ _ E) as [-> Hnc]. cbn [app].
    destruct (filter (unsat lookup) ts) as [|[x t] [|e r]] eqn:Ef; cbn [map fst]; try discriminate.
    intros H. injection H as ->.
    assert (Hin : In (q, t) (filter (unsat lookup) ts)) by (rewrite Ef; now left).
    apply filter_In in Hin. destruct Hin as [Hin Hu]. exists t. split; [now apply In_get|].
    intros o Ho. unfold unsat in Hu. cbn [fst snd] in Hu. rewrite Ho in Hu. cbn [option_map] in Hu.
    pose proof (Hnc q t o Hin Ho) as Hc. destruct (t_relation_with O t o); [discriminate|congruence|reflexivity].
  Qed.

  (* a derivation step whose new accumulated term is non-empty *)
  Lemma deriv_ne p q id (ts : list (pkg * tm)) p' :
    twf_all ts -> notany ts -> NE p ->
    (forall ct, get q ts = Some ct ->
       match term_for p q with Some t => tne (t_intersection O t (t_negate ct)) | None => True end) ->
    add_derivation O p q id ts = Good p' -> NE p'.
  Proof.
    intros Wt Hna Hne Hnew Ed. destruct (add_derivation_get O _ _ _ _ _ Ed) as (ct & a' & Hct & _ & _ & Hget & Hcase).
    specialize (Hnew ct Hct). intros x b Hg. rewrite Hget in Hg. destruct (N.eqb x q); [|eauto]. injection Hg as <-.
    destruct Hcase as [(a0 & t & Hga & Eai & -> & _)|(Hnone & -> & _)].
    - unfold term_for in Hnew. rewrite Hga in Hnew. cbn [option_map] in Hnew. rewrite Eai in Hnew. cbn [ai_term] in Hnew.
      split; cbn [deriv_upd ai ai_term derivs]; [exact Hnew|]. apply Forall_app. split; [exact (proj2 (Hne q a0 Hga))|].
      constructor; [exact Hnew|constructor].
    - assert (Hn : tne (t_negate ct)).
      { apply tne_negate; [exact (SolverQueue2.twf_all_get O L _ _ _ Wt Hct)|exact (notany_get _ _ _ Hna Hct)]. }
      split; cbn [deriv_new ai ai_term derivs]; [exact Hn|]. constructor; [exact Hn|constructor].
  Qed.

  Lemma decide_ne p q v p' : layout p -> NE p -> add_decision O p q v = Good p' -> NE p'.
  Proof.
    intros Hl Hne Ed. destruct (add_decision_get O _ _ _ _ Hl Ed) as (a & t & Hga & _ & _ & _ & _ & Hget).
    intros x b Hg. rewrite Hget in Hg. destruct (N.eqb x q); [|eauto]. injection Hg as <-.
    split; cbn [decide_upd ai ai_term derivs]; [apply tne_exact|exact (proj2 (Hne q a Hga))].
  Qed.

  Lemma backtrack_pa_ne Lv (a a' : pa) : pa_ne a -> backtrack_pa Lv a = Good (Some a') -> pa_ne a'.
  Proof.
    intros Hne Hb. apply backtrack_pa_cases in Hb.
    destruct Hb as (_ & [[-> _]|(_ & pre & dl & rest & Er & _ & _ & Er' & Ea')]); [exact Hne|].
    destruct Hne as [_ Hd]. rewrite Forall_forall in Hd.
    assert (Hin : forall d, In d (dl :: rest) -> In d (derivs a)).
    { intros d H. apply in_rev. rewrite Er. apply in_or_app. now right. }
    split.
    - rewrite Ea'. cbn [ai_term]. apply Hd, Hin. now left.
    - apply Forall_forall. intros d H. apply Hd, Hin. rewrite <- Er'. now apply in_rev in H.
  Qed.

  Lemma ps_backtrack_ne p Lv p' : layout p -> NE p -> ps_backtrack p Lv = Good p' -> NE p'.
  Proof.
    intros Hl Hne E q a' Hg. destruct (ps_backtrack_get_some p p' Lv Hl E q a' Hg) as (a & Hga & Hb).
    eapply backtrack_pa_ne; eauto.
  Qed.

  (* ---------------------------------------------------------------- what the satisfier search says about the backtracked term *)
  Lemma first_disjoint_split (ds : list dated) start :
    match first_disjoint O ds start with
    | Some dd => exists pre post, ds = pre ++ dd :: post
                   /\ Forall (fun d : dated => t_is_disjoint O (d_accum d) start = false) pre
    | None => Forall (fun d : dated => t_is_disjoint O (d_accum d) start = false) ds
    end.
  Proof.
    induction ds as [|d ds IH]; cbn [first_disjoint]; [constructor|].
    destruct (t_is_disjoint O (d_accum d) start) eqn:Ed.
    - exists [], ds. split; [reflexivity|constructor].
    - destruct (first_disjoint O ds start) as [dd|].
      + destruct IH as (pre & post & -> & Hpre). exists (d :: pre), post. split; [reflexivity|]. constructor; assumption.
      + constructor; assumption.
  Qed.

  Lemma mono_split (pre : list dated) : forall lo dd post,
    mono lo (pre ++ dd :: post) -> Forall (fun d : dated => d_level dd <= d_level d) post.
  Proof.
    induction pre as [|d pre IH]; intros lo dd post; cbn [app mono].
    - intros [_ H]. exact (mono_ge _ _ _ H (le_n _)).
    - intros [_ H]. eapply IH; eauto.
  Qed.

  Lemma satisfier_below lvl Lv (a : pa) start c g l :
    pa_ok lvl a -> satisfier O a start = Good (c, g, l) -> Lv < l ->
    Lv < highest a /\ forall d, In d (derivs a) -> d_level d <= Lv -> t_is_disjoint O (d_accum d) start = false.
  Proof.
    intros (K1 & K2 & K3 & K4). unfold satisfier. pose proof (first_disjoint_split (derivs a) start) as Hf.
    destruct (first_disjoint O (derivs a) start) as [dd|].
    - destruct Hf as (pre & post & Eds & Hpre). intros H. injection H as <- <- <-. intros Hlt.
      rewrite Forall_forall in K4. split.
      + assert (Hin : In dd (derivs a)) by (rewrite Eds; apply in_or_app; right; now left). specialize (K4 _ Hin). lia.
      + intros d Hd Hle. rewrite Eds in Hd, K3. apply in_app_or in Hd. destruct Hd as [Hd|[<-|Hd]].
        * rewrite Forall_forall in Hpre. exact (Hpre _ Hd).
        * lia.
        * pose proof (mono_split _ _ _ _ K3) as Hm. rewrite Forall_forall in Hm. specialize (Hm _ Hd). lia.
    - destruct (ai a); [|discriminate]. intros H. injection H as <- <- <-. intros Hlt. split; [exact Hlt|].
      intros d Hd _. rewrite Forall_forall in Hf. exact (Hf _ Hd).
  Qed.

  (* when conflict resolution backtracks to [Lv], no accumulated term of the satisfier package at a level <= Lv
     lies inside the package's term of the incompatibility (test of [satisfier]: [t_is_disjoint] with the negation) *)
  Lemma satisfier_search_sp (p : psol) (ts : list (pkg * tm)) sto sp Lv :
    layout p -> NoDup (keys ts) -> satisfier_search O ts p sto = Good (sp, SDifferent Lv) ->
    exists it spa, get sp ts = Some it /\ get sp (assignments p) = Some spa /\ Lv < highest spa
      /\ forall d, In d (derivs spa) -> d_level d <= Lv -> t_is_disjoint O (d_accum d) (t_negate it) = false.
  Proof.
    intros Hl Hnd. unfold satisfier_search, bind, req.
    destruct (find_satisfier O ts (assignments p)) as [m|] eqn:Em; [|discriminate].
    destruct (max_by_gidx m) as [[sp0 [[sc sg] sl]]|] eqn:Et; [|discriminate].
    destruct (get sp0 (assignments p)) as [spa|] eqn:Espa; [|discriminate].
    destruct (match sc with Some _ => _ | None => _ end) as [accum|]; [|discriminate].
    destruct (get sp0 ts) as [it|] eqn:Eit; [|discriminate].
    destruct (satisfier O spa _) as [s2|] eqn:Es2; [|discriminate].
    destruct (max_by_gidx (set sp0 s2 m)) as [top2|] eqn:Et2; [|discriminate].
    destruct (Nat.leb_spec sl (Nat.max (snd (snd top2)) 1)) as [|Hlt]; [destruct sc; discriminate|].
    intros E. injection E as <- <-.
    destruct (find_satisfier_in O _ _ _ Em) as [_ F2].
    destruct (F2 _ _ (max_by_gidx_in _ _ Et)) as (t & a & Hin & Hga & Hs).
    assert (a = spa) by congruence. subst a.
    assert (t = it) by (apply (In_get _ _ _ Hnd) in Hin; congruence). subst t.
    destruct (satisfier_below (level p) _ spa _ _ _ _ (layout_get_ok p sp0 spa Hl Espa) Hs Hlt) as [H1 H2].
    exists it, spa. auto.
  Qed.

  (* post-condition of a successful conflict resolution: the term of the satisfier package in the backtracked
     partial solution is not inside its term [it] of the root cause *)
  Definition crpost (st : state) (sp : pkg) (rc : nat) : Prop :=
    exists rci it, nth_error (store st) rc = Some rci /\ get sp (terms rci) = Some it
      /\ forall a, get sp (assignments (ps st)) = Some a ->
           exists t, ai a = ADerivations t /\ t_is_disjoint O t (t_negate it) = false.

  Lemma backtrack_parts st inc chg Lv st' :
    backtrack O st inc chg Lv = Good st' ->
    exists p', ps_backtrack (ps st) Lv = Good p' /\ ps st' = p' /\ exists extra, store st' = store st ++ extra.
  Proof.
    unfold backtrack, bind. destruct (ps_backtrack (ps st) Lv) as [p'|]; [|discriminate]. destruct chg.
    - intros E. exists p'. split; [reflexivity|]. split; [exact (merge_incompatibility_ps _ _ _ _ E)|].
      exact (merge_incompatibility_ext O _ _ _ E).
    - intros E. injection E as <-. exists p'. split; [reflexivity|]. split; [reflexivity|]. exists []. cbn. now rewrite app_nil_r.
  Qed.

  Lemma backtrack_sgood st inc chg Lv st' : sgood st -> backtrack O st inc chg Lv = Good st' -> sgood st'.
  Proof.
    intros Hs. unfold backtrack, bind. destruct (ps_backtrack (ps st) Lv) as [p'|]; [|discriminate]. destruct chg.
    - apply merge_incompatibility_sgood. exact Hs.
    - intros E. injection E as <-. exact Hs.
  Qed.

  Lemma backtrack_crpost st cur chg Lv st' (ci : incompat) sp :
    layout (ps st) -> NoDup (keys (terms ci)) -> nth_error (store st) cur = Some ci ->
    satisfier_search O (terms ci) (ps st) (store st) = Good (sp, SDifferent Lv) ->
    backtrack O st cur chg Lv = Good st' -> crpost st' sp cur.
  Proof.
    intros Hl Hnd Hc Es Eb. destruct (satisfier_search_sp _ _ _ _ _ Hl Hnd Es) as (it & spa & Hit & Hspa & Hhi & Hdis).
    destruct (backtrack_parts _ _ _ _ _ Eb) as (p' & Ep & Eps & extra & Est).
    exists ci, it. split; [rewrite Est; now apply nth_error_app_old|]. split; [exact Hit|].
    rewrite Eps. intros a' Hg. destruct (ps_backtrack_get_some _ p' Lv Hl Ep sp a' Hg) as (a & Hga & Hb).
    assert (a = spa) by congruence. subst a. apply backtrack_pa_cases in Hb.
    destruct Hb as (_ & [[-> Hle]|(_ & pre & dl & rest & Er & _ & Hdl & _ & Ea')]); [lia|].
    exists (d_accum dl). split; [exact Ea'|]. apply Hdis; [|exact Hdl]. apply in_rev. rewrite Er. apply in_or_app. right. now left.
  Qed.

  (* ---------------------------------------------------------------- the invariant through unit propagation *)
  Definition G (st : state) : Prop := aux O L st /\ layout (ps st) /\ sgood st /\ NE (ps st).

  Lemma conflict_resolution_G fuel : forall st cur chg,
    G st ->
    match conflict_resolution O fuel st cur chg with
    | inl (CROk st' sp rc) => G st' /\ crpost st' sp rc
    | inl (CRTerminal st' _) => G st'
    | inr _ => True
    end.
  Proof.
    induction fuel as [|fuel IH]; intros st cur chg (Ha & Hl & Hs & Hn); cbn [conflict_resolution]; [exact I|].
    destruct (nth_error (store st) cur) as [ci|] eqn:Ec; [|exact I].
    destruct (is_terminal O ci (root st) (rootv st)); [exact (conj Ha (conj Hl (conj Hs Hn)))|].
    destruct (satisfier_search O (terms ci) (ps st) (store st)) as [[sp [Lv|cause]]|] eqn:Es; [| |exact I].
    - destruct (backtrack O st cur chg Lv) as [st'|] eqn:Eb; [|exact I].
      destruct (satisfier_search_level _ _ _ _ _ _ Hl Es) as [_ Hlt].
      destruct (backtrack_parts _ _ _ _ _ Eb) as (p' & Ep & Eps & _).
      split; [|exact (backtrack_crpost _ _ _ _ _ _ _ Hl (proj1 (sgood_nth _ _ _ Hs Ec)) Ec Es Eb)].
      split; [exact (backtrack_aux O L veqb _ _ _ _ _ Ha Eb)|].
      assert (HLv : Lv <= level (ps st)) by lia.
      split; [exact (proj1 (backtrack_inv O _ _ _ _ _ Hl HLv Eb anyp))|].
      split; [exact (backtrack_sgood _ _ _ _ _ Hs Eb)|]. rewrite Eps. exact (ps_backtrack_ne _ _ _ Hl Hn Ep).
    - destruct (nth_error (store st) cause) as [cj|] eqn:Ej; [|exact I].
      destruct (prior_cause O cur cause (terms ci) (terms cj) sp) as [pc|] eqn:Epc; [|exact I].
      apply IH. destruct (sgood_nth _ _ _ Hs Ec) as [Ni Ai]. destruct (sgood_nth _ _ _ Hs Ej) as [_ Aj].
      pose proof (aux_nth O L _ _ _ Ha Ec) as Wi. pose proof (aux_nth O L _ _ _ Ha Ej) as Wj.
      split; [apply (alloc_aux O L st pc Ha); exact (prior_cause_wf O L _ _ _ _ _ _ Wi Wj Epc)|].
      split; [exact Hl|]. split; [|exact Hn].
      apply (alloc_sgood st pc Hs). exact (prior_cause_good _ _ _ _ _ _ Wi Wj Ni Ai Aj Epc).
  Qed.

  Lemma scan_incompats_G ids : forall st buffer st' b' c,
    G st -> scan_incompats O ids st buffer = Good (st', b', c) -> G st'.
  Proof.
    induction ids as [|id ids IH]; intros st buffer st' b' c HG; cbn [scan_incompats].
    - intros E. now injection E as <- _ _.
    - destruct (cached id (contradicted st)); [now apply IH|].
      unfold bind, req. destruct (nth_error (store st) id) as [ci|] eqn:Ec; [|discriminate].
      destruct HG as (Ha & Hl & Hs & Hn).
      destruct (relation O (terms ci) (term_for (ps st))) as [| |q|] eqn:Er.
      + intros E. injection E as <- _ _. exact (conj Ha (conj Hl (conj Hs Hn))).
      + apply IH. split; [|exact (conj Hl (conj Hs Hn))].
        destruct Ha as (Hp & Hst & Hc). split; [exact Hp|]. split; [exact Hst|]. cbn.
        apply cache_set_bound; [|exact Hc]. apply nth_error_Some. congruence.
      + destruct (add_derivation O (ps st) q id (terms ci)) as [p'|] eqn:Ed; [|discriminate].
        apply IH. pose proof (aux_nth O L _ _ _ Ha Ec) as Wi. destruct (sgood_nth _ _ _ Hs Ec) as [Ni Ai].
        split; [eapply upd_cache_aux; [exact Ha| |exact Ec]; eapply add_derivation_wf; [exact (proj1 Ha)|exact Wi|exact Ed]|].
        split; [exact (add_derivation_layout O _ _ _ _ _ Hl Ed)|]. split; [exact Hs|].
        cbn [ps upd_cache upd_ps]. eapply deriv_ne; [exact Wi|exact Ai|exact Hn| |exact Ed].
        intros ct Hct. destruct (relation_almost_inv _ _ _ Ni Er) as (t0 & Ht0 & Hrel).
        assert (t0 = ct) by congruence. subst t0.
        destruct (term_for (ps st) q) as [t|] eqn:Et; [|exact I].
        apply tne_inter_not_satisfied; [exact (term_for_wf O L _ _ _ (proj1 Ha) Et)|exact (SolverQueue2.twf_all_get O L _ _ _ Wi Hct)|].
        rewrite (Hrel t eq_refl). discriminate.
      + apply IH. exact (conj Ha (conj Hl (conj Hs Hn))).
  Qed.

  Lemma unit_propagation_G fuel : forall st buffer,
    G st ->
    match unit_propagation O fuel st buffer with
    | inl (UPOk st') => G st'
    | inl (UPConflict st' _) => G st'
    | inr _ => True
    end.
  Proof.
    induction fuel as [|fuel IH]; intros st buffer HG; cbn [unit_propagation]; [exact I|].
    destruct (rev buffer) as [|cur rest]; [exact HG|].
    destruct (get cur (index st)) as [ids|]; [|exact I].
    destruct (scan_incompats O (rev ids) st (rev rest)) as [[[st1 b2] [conflict|]]|] eqn:Es; [| |exact I].
    - pose proof (scan_incompats_G _ _ _ _ _ _ HG Es) as H1.
      pose proof (conflict_resolution_G fuel st1 conflict false H1) as Hcr.
      destruct (conflict_resolution O fuel st1 conflict false) as [[st2 q rc|st2 id]|]; [|exact Hcr|exact I].
      destruct Hcr as ((Ha & Hl & Hs & Hn) & (rci & it & Hrc & Hit & Hsp)). rewrite Hrc.
      destruct (add_derivation O (ps st2) q rc (terms rci)) as [p'|] eqn:Ed; [|exact I].
      apply IH. pose proof (aux_nth O L _ _ _ Ha Hrc) as Wi. destruct (sgood_nth _ _ _ Hs Hrc) as [Ni Ai].
      split; [eapply upd_cache_aux; [exact Ha| |exact Hrc]; eapply add_derivation_wf; [exact (proj1 Ha)|exact Wi|exact Ed]|].
      split; [exact (add_derivation_layout O _ _ _ _ _ Hl Ed)|]. split; [exact Hs|].
      cbn [ps upd_cache upd_ps]. eapply deriv_ne; [exact Wi|exact Ai|exact Hn| |exact Ed].
      intros ct Hct. assert (ct = it) by congruence. subst ct.
      unfold term_for. destruct (get q (assignments (ps st2))) as [a|] eqn:Ega; cbn [option_map]; [|exact I].
      destruct (Hsp a eq_refl) as (t & Eai & Hd). rewrite Eai. cbn [ai_term].
      pose proof (SolverQueue2.twf_all_get O L _ _ _ Wi Hit) as Wit.
      apply tne_inter_not_disjoint; [|now apply (twf_negate O L)|exact Hd].
      pose proof (proj1 (ps_wf_get O L _ _ _ (proj1 Ha) Ega)) as Wt. rewrite Eai in Wt. exact Wt.
    - apply IH. exact (scan_incompats_G _ _ _ _ _ _ HG Es).
  Qed.

  (* ---------------------------------------------------------------- the main loop *)
  Section TraceA.
    Variable tr0 : list event.

    Definition choose_ne (i : nat) : Prop :=
      forall p s a, nth_error tr0 i = Some (EvChoose p s a) -> wfs s /\ s <> vs_empty O.
    Definition ne_result (n : nat) (res : @result VS Vr) : Prop := forall i, n <= i < snd res -> choose_ne i.

    Lemma ne_extend n n' res : (forall i, n <= i < n' -> choose_ne i) -> ne_result n' res -> ne_result n res.
    Proof. intros H H' i Hi. destruct (Nat.lt_ge_cases i n'); [apply H; lia|apply H'; lia]. Qed.

    Theorem resolve_loop_ne fuel : forall st next added (tr : list event) n log,
      Inv O L st next -> sgood st -> NE (ps st) -> trace_wf O L tr -> tr = skipn n tr0 ->
      ne_result n (resolve_loop O veqb fuel st next added tr n log).
    Proof.
      induction fuel as [|fuel IH]; intros st next added tr n log Hst Hsg Hne Hwf Htr; cbn [resolve_loop].
      { intros i Hi. cbn [snd] in Hi. lia. }
      assert (Hex0 : forall o st0 lg, ne_result n (o, st0, lg, n)) by (intros o st0 lg i Hi; cbn [snd] in Hi; lia).
      destruct tr as [|[ok| | |] tr1]; try apply Hex0.
      apply skipn_cons_inv in Htr. destruct Htr as [Hn0 Htr1].
      assert (Hex1 : forall o st0 lg, ne_result n (o, st0, lg, S n)).
      { intros o st0 lg i Hi p s a E. cbn [snd] in Hi. assert (i = n) by lia. subst i. congruence. }
      destruct ok; cbn [negb]; [|apply Hex1]. apply Forall_inv_tail in Hwf.
      pose proof (up_clears O L veqb (S fuel) st next) as Hup.
      pose proof (unit_propagation_G (S fuel) st [next] (conj (proj1 Hst) (conj (proj1 (proj2 Hst)) (conj Hsg Hne)))) as HupG.
      destruct (unit_propagation O (S fuel) st [next]) as [[st1|st1 id]|[|s0]]; try apply Hex1.
      2:{ destruct (build_derivation_tree (store st1) id); apply Hex1. }
      destruct (Hup st1 Hst eq_refl) as (Ha1 & Hl1 & Hc1). clear Hup. destruct HupG as (_ & _ & Hs1 & Hn1).
      destruct (do_prioritize O (pick_candidates (ps st1)) (queue (ps st1)) tr1 (S n)) as [[[q tr2] n2]|o] eqn:Ep; [|apply Hex1].
      destruct (do_prioritize_count O _ _ _ _ _ _ _ Ep) as (pre & Epre & Hall & En2).
      assert (Htr2 : tr2 = skipn n2 tr0) by (rewrite En2; apply skipn_app_inv; now rewrite <- Epre).
      rewrite Epre in Hwf. apply Forall_app in Hwf. destruct Hwf as [_ Hwf].
      assert (Hpre : forall i, n <= i < n2 -> choose_ne i).
      { intros i Hi p s a E. destruct (Nat.eq_dec i n) as [->|Hne']; [congruence|]. exfalso.
        assert (E1 : nth_error tr1 (i - S n) = Some (EvChoose p s a)).
        { rewrite Htr1, nth_error_skipn'. now replace (S n + (i - S n)) with i by lia. }
        rewrite Epre, nth_error_app1 in E1 by lia. unfold all_prio in Hall. rewrite Forall_forall in Hall.
        apply nth_error_In in E1. exact (Hall _ E1). }
      assert (Hex_n2 : forall o st0 lg, ne_result n (o, st0, lg, n2)) by (intros o st0 lg i Hi; apply Hpre; exact Hi).
      destruct (queue_max q) as [mx|].
      2:{ unfold res_out. destruct (extract_solution (ps st1)); apply Hex_n2. }
      destruct tr2 as [|[| |p s ans|] tr3]; try apply Hex_n2.
      apply skipn_cons_inv in Htr2. destruct Htr2 as [Hn2 Htr3].
      destruct (get p q) as [[prio qs]|] eqn:Egp; [|apply Hex_n2].
      destruct (negb (Z.eqb prio mx)); [apply Hex_n2|].
      destruct (popped_inv O L veqb st1 q _ _ _ _ p Ha1 Hl1 Hc1 Ep) as (_ & Ha2 & Hl2 & Hc2).
      set (st2 := upd_ps st1 _) in *.
      assert (Hs2 : sgood st2) by exact Hs1.
      assert (Hne2 : NE (ps st2)) by exact Hn1.
      destruct (term_for (ps st2) p) as [ti|] eqn:Eti; [|apply Hex_n2].
      destruct ti as [cur|cur]; [|apply Hex_n2].
      destruct (vs_eqb O s cur) eqn:Es; cbn [negb]; [|apply Hex_n2].
      apply (vs_eqb_spec O L) in Es. subst cur.
      (* the offered set is the (non-empty) accumulated term of the picked package *)
      assert (Hsne : wfs s /\ s <> vs_empty O).
      { pose proof (term_for_wf O L _ _ _ (proj1 Ha2) Eti) as Ws. cbn in Ws. split; [exact Ws|]. apply (tne_pos s Ws).
        unfold term_for in Eti. destruct (get p (assignments (ps st2))) as [a|] eqn:Ega; [|discriminate].
        cbn [option_map] in Eti. injection Eti as Eti. rewrite <- Eti. exact (proj1 (Hne2 p a Ega)). }
      assert (Hch : choose_ne n2).
      { intros p0 s0 a0 E. rewrite Hn2 in E. injection E as _ <- _. exact Hsne. }
      assert (Hpre1 : forall i, n <= i < S n2 -> choose_ne i).
      { intros i Hi. destruct (Nat.eq_dec i n2) as [->|]; [exact Hch|apply Hpre; lia]. }
      assert (Hex_Sn2 : forall o st0 lg, ne_result n (o, st0, lg, S n2)) by (intros o st0 lg i Hi; apply Hpre1; exact Hi).
      pose proof (Forall_inv_tail Hwf) as Hwf3.
      destruct ans as [v| |]; [| |apply Hex_Sn2].
      - destruct (t_contains O (Pos s) v) eqn:Ev; cbn [negb]; [|apply Hex_Sn2].
        destruct (added_has veqb added p v).
        + unfold res_out. destruct (add_decision O (ps st2) p v) as [p'|] eqn:Ed; [|apply Hex_Sn2].
          apply (ne_extend n (S n2)); [exact Hpre1|].
          apply IH; [exact (cont_decide O L veqb st2 p v p' Ha2 Hl2 Hc2 Ed)|exact Hs2| |exact Hwf3|exact Htr3].
          exact (decide_ne _ _ _ _ Hl2 Hne2 Ed).
        + destruct tr3 as [|[| | |p' v' dans] tr4]; try apply Hex_Sn2.
          destruct (N.eqb p p' && veqb v v'); cbn [negb]; [|apply Hex_Sn2].
          apply skipn_cons_inv in Htr3. destruct Htr3 as [Hn3 Htr4].
          pose proof (Forall_inv Hwf3) as Hev2. apply Forall_inv_tail in Hwf3.
          assert (Hpre2 : forall i, n <= i < S (S n2) -> choose_ne i).
          { intros i Hi. destruct (Nat.eq_dec i (S n2)) as [->|]; [|apply Hpre1; lia]. intros p0 s0 a0 E. congruence. }
          assert (Hex_SSn2 : forall o st0 lg, ne_result n (o, st0, lg, S (S n2))) by (intros o st0 lg i Hi; apply Hpre2; exact Hi).
          destruct dans as [deps|m|]; [| |apply Hex_SSn2].
          * unfold res_out.
            destruct (add_incompatibility_from_dependencies O st2 p v deps) as [[st3 range]|] eqn:Ea; [|apply Hex_SSn2].
            destruct (add_version O (ps st3) p v range (store st3)) as [pn|] eqn:Eav; [|apply Hex_SSn2].
            apply (ne_extend n (S (S n2))); [exact Hpre2|].
            apply IH; [exact (cont_deps O L veqb st2 p s v deps st3 range pn Ha2 Hl2 Hc2 Eti Ev Hev2 Ea Eav)| | |exact Hwf3|exact Htr4].
            -- exact (add_from_dependencies_sgood _ _ _ _ _ _ Hs2 Ea).
            -- cbn [ps upd_ps]. pose proof (add_from_dependencies_ps _ _ _ _ _ _ _ Ea) as Eps. rewrite Eps in Eav.
               destruct (add_version_cases _ _ _ _ _ _ _ Eav) as [Ed|[-> _]]; [|exact Hne2].
               exact (decide_ne _ _ _ _ Hl2 Hne2 Ed).
          * unfold res_out.
            destruct (add_incompatibility O st2 (custom_version O p v m)) as [st3|] eqn:Ea; [|apply Hex_SSn2].
            apply (ne_extend n (S (S n2))); [exact Hpre2|].
            apply IH; [exact (cont_unavail O L st2 p s v m st3 Ha2 Hl2 Hc2 Eti Ev Ea)| | |exact Hwf3|exact Htr4].
            -- eapply add_incompatibility_sgood; [exact Hs2| |exact Ea]. apply single_pos_good.
            -- rewrite (add_incompatibility_ps _ _ _ _ Ea). exact Hne2.
      - cbn [no_versions]. unfold res_out.
        destruct (add_incompatibility O st2 _) as [st3|] eqn:Ea; [|apply Hex_Sn2].
        apply (ne_extend n (S n2)); [exact Hpre1|].
        apply IH; [exact (cont_novers O L st2 p s st3 Ha2 Hl2 Hc2 Eti Ea)| | |exact Hwf3|exact Htr3].
        + eapply add_incompatibility_sgood; [exact Hs2| |exact Ea]. apply single_pos_good.
        + rewrite (add_incompatibility_ps _ _ _ _ Ea). exact Hne2.
    Qed.
  End TraceA.

  Lemma resolve_choose_ne fuel r rv (tr : list event) o st log cnt i p s a :
    trace_wf O L tr -> resolve O veqb fuel r rv tr = (o, st, log, cnt) ->
    i < cnt -> nth_error tr i = Some (EvChoose p s a) -> wfs s /\ s <> vs_empty O.
  Proof.
    intros Hwf Er Hi Hn.
    assert (H : ne_result tr 0 (resolve O veqb fuel r rv tr)).
    { unfold resolve. apply resolve_loop_ne; [exact (state_init_Inv O L r rv)| | |exact Hwf|reflexivity].
      - constructor; [apply not_root_good|constructor].
      - intros q a0 Hg. discriminate. }
    rewrite Er in H. exact (H i ltac:(cbn [snd]; lia) p s a Hn).
  Qed.

  (* T-a: the set of every consumed choose_version call is not the empty set ... *)
  Theorem resolve_choose_nonempty fuel r rv (tr : list event) o st log cnt i p s a :
    trace_wf O L tr -> resolve O veqb fuel r rv tr = (o, st, log, cnt) ->
    i < cnt -> nth_error tr i = Some (EvChoose p s a) -> s <> vs_empty O.
  Proof. intros Hwf Er Hi Hn. exact (proj2 (resolve_choose_ne _ _ _ _ _ _ _ _ _ _ _ _ Hwf Er Hi Hn)). Qed.

  (* ... as decided by the VersionSet's own equality test ... *)
  Corollary resolve_choose_nonempty_eqb fuel r rv (tr : list event) o st log cnt i p s a :
    trace_wf O L tr -> resolve O veqb fuel r rv tr = (o, st, log, cnt) ->
    i < cnt -> nth_error tr i = Some (EvChoose p s a) -> vs_eqb O s (vs_empty O) = false.
  Proof.
    intros Hwf Er Hi Hn. pose proof (resolve_choose_nonempty _ _ _ _ _ _ _ _ _ _ _ _ Hwf Er Hi Hn) as H.
    destruct (vs_eqb O s (vs_empty O)) eqn:E; [|reflexivity]. apply (vs_eqb_spec O L) in E. contradiction.
  Qed.

  (* ... and semantically, over the universe of the lawful VersionSet: the set is well formed and not every point is
     outside it (constructively: it is impossible that no point is a member) *)
  Corollary resolve_choose_nonempty_sem fuel r rv (tr : list event) o st log cnt i p s a :
    trace_wf O L tr -> resolve O veqb fuel r rv tr = (o, st, log, cnt) ->
    i < cnt -> nth_error tr i = Some (EvChoose p s a) ->
    wfs s /\ ~ (forall u, mem O L s u = false) /\ ~ ~ (exists u, mem O L s u = true).
  Proof.
    intros Hwf Er Hi Hn. destruct (resolve_choose_ne _ _ _ _ _ _ _ _ _ _ _ _ Hwf Er Hi Hn) as [Ws Hne].
    split; [exact Ws|]. assert (H : ~ (forall u, mem O L s u = false)) by (intros H; apply Hne; now apply (empty_mem s Ws)).
    split; [exact H|]. intros Hex. apply H. intros u. destruct (mem O L s u) eqn:E; [|reflexivity].
    exfalso. apply Hex. now exists u.
  Qed.
  (* with a VersionSet whose emptiness can be decided semantically, a member exists *)
  Corollary resolve_choose_nonempty_witness fuel r rv (tr : list event) o st log cnt i p s a :
    (forall x, wfs x -> (exists u, mem O L x u = true) \/ (forall u, mem O L x u = false)) ->
    trace_wf O L tr -> resolve O veqb fuel r rv tr = (o, st, log, cnt) ->
    i < cnt -> nth_error tr i = Some (EvChoose p s a) -> exists u, mem O L s u = true.
  Proof.
    intros Hdec Hwf Er Hi Hn. destruct (resolve_choose_nonempty_sem _ _ _ _ _ _ _ _ _ _ _ _ Hwf Er Hi Hn) as (Ws & Hne & _).
    destruct (Hdec s Ws) as [H|H]; [exact H|contradiction].
  Qed.

End Proto2.

(* ---------------------------------------------------------------- non-vacuity: the three results on a concrete run *)
From PG Require Import Proofs.BitsetLawful Proofs.SolverSoundExample.

Lemma res1_cnt : snd (resolve bitset_vs v8_eqb 50 0 V1 tr1) = 9%nat.
Proof. vm_compute. reflexivity. Qed.

Lemma tr1_inside : ChooseInside bitset_vs tr1.
Proof. unfold tr1. repeat constructor. Qed.

(* [res] is kept abstract so that no tactic evaluates the run *)
Lemma proto2_generic (res : @result N v8) :
  snd res = 9%nat -> resolve bitset_vs v8_eqb 50 0 V1 tr1 = res ->
  (* T-b *) (0%N = 0%N /\ 2%N = vs_singleton bitset_vs V1 /\ 2%nat = 2%nat
             /\ exists z, firstn 2 tr1 = [EvCancel true; EvPrioritize 0%N (vs_singleton bitset_vs V1) z])
  (* T-c *) /\ (forall f, fst (fst (fst res)) <> OFailure f)
  (* T-a, second choose_version call *) /\ 12%N <> vs_empty bitset_vs.
Proof.
  destruct res as [[[o st] log] cnt]. cbn [fst snd]. intros -> E.
  pose proof (wellbehaved_trace_wf bitset_vs bitset_lawful reg1 tr1 reg1_wf tr1_wb) as Hwf.
  split; [|split].
  - apply (resolve_first_choose bitset_vs bitset_lawful v8_eqb 50 0%N V1 tr1 o st log 9 2 0%N 2%N (CSome V1) E); [lia|reflexivity|].
    intros [|[|j]] e Hj He; [| |lia]; cbn in He; injection He as <-; reflexivity.
  - intros f. exact (resolve_no_failure bitset_vs bitset_lawful v8_eqb reg1 50 0%N V1 tr1 o st log 9 f (conj tr1_wb tr1_inside) E).
  - apply (resolve_choose_nonempty bitset_vs bitset_lawful v8_eqb 50 0%N V1 tr1 o st log 9 6 1%N 12%N (CSome V2) Hwf E); [lia|reflexivity].
Qed.

Example proto2_nonvacuous :
  (forall f, fst (fst (fst (resolve bitset_vs v8_eqb 50 0 V1 tr1))) <> OFailure f) /\ 12%N <> vs_empty bitset_vs.
Proof. destruct (proto2_generic _ res1_cnt eq_refl) as (_ & H2 & H3). split; assumption. Qed.

Print Assumptions resolve_first_choose.
Print Assumptions resolve_first_choose_pos.
Print Assumptions resolve_no_failure_noterm.
Print Assumptions resolve_no_failure_inside.
Print Assumptions resolve_no_failure.
Print Assumptions resolve_choose_nonempty.
Print Assumptions resolve_choose_nonempty_eqb.
Print Assumptions resolve_choose_nonempty_sem.
Print Assumptions resolve_choose_nonempty_witness.
Print Assumptions proto2_nonvacuous.
