(* The heap facts of Proofs/HeapProofs.v discharge the hypotheses of Proofs/SolverDetQueue.v: in the solver
   model with the exact priority queue ([resolve_h]) the popped package always has maximal queue priority. *)
From Coq Require Import List NArith ZArith Bool.
From PG Require Import Model.VS Model.Term Model.Heap Model.Solver Proofs.HeapProofs Proofs.SolverDetQueue.
Import ListNotations.

Lemma N_eqb_spec' : forall a b : N, N.eqb a b = true <-> a = b.
Proof. intros a b. apply N.eqb_eq. Qed.

Section Inst.
  Context {VS Vr : Type} (O : VSOps VS Vr) (veqb : Vr -> Vr -> bool).

  Theorem resolve_h_pick_is_max : forall fuel r v (tr : list (event (VS := VS) (Vr := Vr))) k p,
    fst (fst (fst (resolve_h O veqb fuel r v tr))) <> OPickNotMax k p.
  Proof.
    apply (resolve_h_pick_max O veqb).
    - exact (heap_push_perm N.eqb N_eqb_spec').
    - exact (heap_push_wf N.eqb N_eqb_spec').
    - exact (heap_push_ord N.eqb).
    - exact (@heap_pop_perm pkg).
    - exact (@heap_pop_wf pkg).
    - exact (@heap_pop_ord pkg).
    - exact (@heap_pop_max pkg).
  Qed.
End Inst.

Print Assumptions resolve_h_pick_is_max.
