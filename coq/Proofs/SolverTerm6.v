(* C05 (model side), termination, part 6: progress of unit propagation from a trigger.
   The global index [next_gidx] counts the assignments ever made; it never decreases, and when the package the
   loop re-propagates has a trigger (SolverQueue2.trig: an uncached incompatibility that is satisfied or almost
   satisfied by it -- the situation after a NoVersions / Unavailable / skipped decision), unit propagation
   makes at least one assignment or meets a conflict ([up_trig_g]). *)
From Coq Require Import List NArith ZArith Bool Lia PeanoNat.
From PG Require Import Model.VS Model.Term Model.Solver Proofs.VSLaws Proofs.TermProofs Proofs.AssocProofs
  Proofs.SolverSem Proofs.SolverStore Proofs.SolverProtocol Proofs.SolverQueue Proofs.SolverQueue2
  Proofs.SolverSound1 Proofs.SolverReach1 Proofs.SolverProto2.
Import ListNotations.

Section Term6.
  Context {VS Vr : Type} (O : VSOps VS Vr) (L : VSLawful O).

  Notation tm := (term VS).
  Notation pa := (@pa VS Vr).
  Notation psol := (@psol VS Vr).
  Notation state := (@state VS Vr).
  Notation incompat := (@incompat VS Vr).
  Notation event := (@event VS Vr).
  Notation aux := (aux O L).
  Notation trig := (trig O).
  Notation twf := (twf O L).

  Lemma scan_gidx_mono ids : forall (st : state) buffer st' b' c,
    scan_incompats O ids st buffer = Good (st', b', c) -> next_gidx (ps st) <= next_gidx (ps st').
  Proof.
    induction ids as [|id ids IH]; intros st buffer st' b' c; cbn [scan_incompats].
    - intros E. injection E as <- _ _. lia.
    - destruct (cached id (contradicted st)); [apply IH|].
      unfold bind, req. destruct (nth_error (store st) id) as [ci|]; [|discriminate].
      destruct (relation O (terms ci) (term_for (ps st))) as [| |q|].
      + intros E. injection E as <- _ _. lia.
      + intros E. apply IH in E. exact E.
      + destruct (add_derivation O (ps st) q id (terms ci)) as [p'|] eqn:Ed; [|discriminate].
        intros E. apply IH in E. cbn [upd_cache upd_ps ps] in E. rewrite (add_derivation_gidx O _ _ _ _ _ Ed) in E. lia.
      + apply IH.
  Qed.

  Lemma cr_gidx fuel : forall (st : state) cur chg st' q rc,
    conflict_resolution O fuel st cur chg = inl (CROk st' q rc) -> next_gidx (ps st') = next_gidx (ps st).
  Proof.
    induction fuel as [|fuel IH]; intros st cur chg st' q rc; cbn [conflict_resolution]; [discriminate|].
    destruct (nth_error (store st) cur) as [ci|]; [|discriminate].
    destruct (is_terminal O ci (root st) (rootv st)); [discriminate|].
    destruct (satisfier_search O (terms ci) (ps st) (store st)) as [[sp [Lv|cause]]|]; [| |discriminate].
    - destruct (backtrack O st cur chg Lv) as [st2|] eqn:Eb; [|discriminate]. intros E. injection E as <- _ _.
      destruct (backtrack_parts O _ _ _ _ _ Eb) as (p' & Ep & -> & _). exact (ps_backtrack_gidx _ _ _ Ep).
    - destruct (nth_error (store st) cause) as [cj|]; [|discriminate].
      destruct (prior_cause O cur cause (terms ci) (terms cj) sp) as [pc|]; [|discriminate].
      cbn [alloc]. intros E. apply IH in E. exact E.
  Qed.

  Lemma up_gidx_mono fuel : forall (st : state) buffer st',
    unit_propagation O fuel st buffer = inl (UPOk st') -> next_gidx (ps st) <= next_gidx (ps st').
  Proof.
    induction fuel as [|fuel IH]; intros st buffer st'; cbn [unit_propagation]; [discriminate|].
    destruct (rev buffer) as [|cur rest]; [intros E; injection E as <-; lia|].
    destruct (get cur (index st)) as [ids|]; [|discriminate].
    destruct (scan_incompats O (rev ids) st (rev rest)) as [[[st1 b2] [conflict|]]|] eqn:Es; [| |discriminate].
    - pose proof (scan_gidx_mono _ _ _ _ _ _ Es) as H1.
      destruct (conflict_resolution O fuel st1 conflict false) as [[st2 q rc|st2 id]|] eqn:Ec; [|discriminate|discriminate].
      pose proof (cr_gidx _ _ _ _ _ _ _ Ec) as H2.
      destruct (nth_error (store st2) rc) as [rci|]; [|discriminate].
      destruct (add_derivation O (ps st2) q rc (terms rci)) as [p'|] eqn:Ed; [|discriminate].
      intros E. apply IH in E. cbn [upd_cache upd_ps ps] in E. rewrite (add_derivation_gidx O _ _ _ _ _ Ed) in E. lia.
    - pose proof (scan_gidx_mono _ _ _ _ _ _ Es) as H1. intros E. apply IH in E. lia.
  Qed.

  (* the scan meets the trigger: a conflict, or at least one derivation *)
  Lemma scan_trig_g ids : forall (st : state) buffer st' b' c nx id,
    aux st -> In id ids -> trig st nx id ->
    scan_incompats O ids st buffer = Good (st', b', c) -> c <> None \/ next_gidx (ps st) < next_gidx (ps st').
  Proof.
    induction ids as [|x ids IH]; intros st buffer st' b' c nx id Ha Hin Ht; [destruct Hin|].
    cbn [scan_incompats]. destruct Ht as (Hcache & ci & Hci & Halm).
    assert (Hrest : forall (st0 : state) buf, next_gidx (ps st) < next_gidx (ps st0) ->
                    scan_incompats O ids st0 buf = Good (st', b', c) -> c <> None \/ next_gidx (ps st) < next_gidx (ps st')).
    { intros st0 buf H0 E. right. pose proof (scan_gidx_mono _ _ _ _ _ _ E). lia. }
    destruct (Nat.eq_dec x id) as [->|Hne].
    - rewrite Hcache. unfold bind, req. rewrite Hci.
      destruct (relation_almost O _ _ _ Halm) as [-> | ->].
      + intros E. injection E as _ _ <-. left. discriminate.
      + destruct (add_derivation O (ps st) nx id (terms ci)) as [p'|] eqn:Ed; [|discriminate].
        apply Hrest. cbn [ps upd_cache upd_ps]. rewrite (add_derivation_gidx O _ _ _ _ _ Ed). lia.
    - destruct Hin as [Hin|Hin]; [congruence|].
      destruct (cached x (contradicted st)); [eapply IH; eauto; split; eauto|].
      unfold bind, req. destruct (nth_error (store st) x) as [cx|] eqn:Ex; [|discriminate].
      destruct (relation O (terms cx) (term_for (ps st))) as [| |q|].
      + intros E. injection E as _ _ <-. left. discriminate.
      + intros E. eapply (IH _ _ _ _ _ nx id) in E; [exact E| |exact Hin|].
        * destruct Ha as (A1 & A2 & A3). split; [exact A1|]. split; [exact A2|]. cbn. apply cache_set_bound; [|exact A3].
          apply nth_error_Some. congruence.
        * split; [cbn [contradicted upd_cache upd_ps]; now rewrite cached_cache_set_other by congruence|]. exists ci. split; [exact Hci|exact Halm].
      + destruct (add_derivation O (ps st) q x (terms cx)) as [p'|] eqn:Ed; [|discriminate].
        apply Hrest. cbn [ps upd_cache upd_ps]. rewrite (add_derivation_gidx O _ _ _ _ _ Ed). lia.
      + intros E. eapply (IH _ _ _ _ _ nx id) in E; [exact E|exact Ha|exact Hin|]. split; eauto.
  Qed.

  (* M6, key step: from a trigger, a successful unit propagation has made at least one assignment *)
  Lemma up_trig_g fuel (st : state) nx st1 id :
    aux st -> In id (index_get nx (index st)) -> trig st nx id ->
    unit_propagation O fuel st [nx] = inl (UPOk st1) -> next_gidx (ps st) < next_gidx (ps st1).
  Proof.
    intros Ha Hin Ht. destruct fuel as [|fuel]; [discriminate|]. cbn [unit_propagation rev app].
    unfold index_get in Hin. destruct (get nx (index st)) as [ids|]; [|destruct Hin].
    destruct (scan_incompats O (rev ids) st []) as [[[st2 b2] [conflict|]]|] eqn:Es; [| |discriminate].
    - pose proof (scan_gidx_mono _ _ _ _ _ _ Es) as H1.
      destruct (conflict_resolution O fuel st2 conflict false) as [[st3 q rc|st3 tid]|] eqn:Ec; [|discriminate|discriminate].
      pose proof (cr_gidx _ _ _ _ _ _ _ Ec) as H2.
      destruct (nth_error (store st3) rc) as [rci|]; [|discriminate].
      destruct (add_derivation O (ps st3) q rc (terms rci)) as [p'|] eqn:Ed; [|discriminate].
      intros E. apply up_gidx_mono in E. cbn [upd_cache upd_ps ps] in E. rewrite (add_derivation_gidx O _ _ _ _ _ Ed) in E. lia.
    - destruct (scan_trig_g _ _ _ _ _ _ nx id Ha (proj1 (in_rev ids id) Hin) Ht Es) as [H2|H2]; [congruence|].
      intros E. apply up_gidx_mono in E. lia.
  Qed.

  (* the number of prioritize events of one pick *)
  Lemma do_prioritize_n cands : forall q (tr : list event) n q' tr' n',
    do_prioritize O cands q tr n = inl (q', tr', n') -> n' = n + length cands.
  Proof.
    induction cands as [|[p s] cands IH]; intros q tr n q' tr' n'; cbn [do_prioritize].
    - intros H. injection H as _ _ <-. cbn. lia.
    - destruct tr as [|[| p' s' prio | |] tr0]; try discriminate.
      destruct (N.eqb p p' && vs_eqb O s s'); [|discriminate]. intros H. apply IH in H. cbn [length]. lia.
  Qed.

  Lemma flat_map_len_le {A B} (f : A -> list B) (l : list A) :
    (forall x, length (f x) <= 1) -> length (flat_map f l) <= length l.
  Proof.
    intros H. induction l as [|a l IH]; cbn [flat_map length]; [lia|]. rewrite app_length. specialize (H a). lia.
  Qed.

  Lemma pick_candidates_len (p : psol) : length (pick_candidates p) <= length (assignments p).
  Proof.
    unfold pick_candidates.
    etransitivity; [apply flat_map_len_le|rewrite skipn_length; lia].
    intros [q a]. destruct (_ || _); [|cbn; lia]. destruct (ai a) as [|[s|s]]; cbn; lia.
  Qed.
End Term6.
