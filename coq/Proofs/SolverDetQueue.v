(* In the solver model with the exact heap (Model/Solver.v: resolve_loop_h), the heap and the abstract
   queue agree at every pick, so the popped package always has maximal queue priority: the model never
   reports OPickNotMax.  The heap facts are Section hypotheses (proved in another file). *)
From Coq Require Import List NArith ZArith Bool Lia PeanoNat Permutation.
From PG Require Import Model.VS Model.Term Model.Heap Model.Solver Proofs.AssocProofs Proofs.SolverStore.
Import ListNotations.

Section DetQueue.
  Context {VS Vr : Type} (O : VSOps VS Vr) (veqb : Vr -> Vr -> bool).

  Definition hwf (h : heap (I:=pkg)) : Prop := NoDup (map fst h).
  Definition hord (h : heap (I:=pkg)) : Prop :=
    forall i c p, 0 < i -> nth_error h i = Some c -> nth_error h (Nat.div2 (i - 1)) = Some p -> (snd c <= snd p)%Z.
  Hypothesis H_push_perm : forall h p z, hwf h ->
    Permutation (heap_push N.eqb h p z) ((p, z) :: filter (fun e => negb (N.eqb p (fst e))) h).
  Hypothesis H_push_wf  : forall h p z, hwf h -> hwf (heap_push N.eqb h p z).
  Hypothesis H_push_ord : forall h p z, hwf h -> hord h -> hord (heap_push N.eqb h p z).
  Hypothesis H_pop_none : forall h : heap (I:=pkg), heap_pop h = None <-> h = [].
  Hypothesis H_pop_perm : forall (h : heap (I:=pkg)) e h', heap_pop h = Some (e, h') -> Permutation h (e :: h').
  Hypothesis H_pop_wf   : forall (h : heap (I:=pkg)) e h', hwf h -> heap_pop h = Some (e, h') -> hwf h'.
  Hypothesis H_pop_ord  : forall (h : heap (I:=pkg)) e h', hord h -> heap_pop h = Some (e, h') -> hord h'.
  Hypothesis H_pop_max  : forall (h : heap (I:=pkg)) e h', hord h -> heap_pop h = Some (e, h') -> forall x, In x h -> (snd x <= snd e)%Z.

  Definition HQ (q : list (pkg * (Z * VS))) (hp : heap (I:=pkg)) : Prop :=
    hwf hp /\ hord hp /\ forall p z, In (p, z) hp <-> exists s, get p q = Some (z, s).

  (* the invariant actually carried: the abstract queue has no duplicate keys *)
  Definition HQ' (q : list (pkg * (Z * VS))) (hp : heap (I:=pkg)) : Prop :=
    NoDup (keys q) /\ HQ q hp.

  Lemma HQ'_HQ q hp : HQ' q hp -> HQ q hp.
  Proof. intros H; exact (proj2 H). Qed.

  Lemma HQ'_nil : HQ' [] [].
  Proof.
    split; [constructor|]. split; [constructor|]. split.
    - intros i c p _ Hc. destruct i; discriminate.
    - intros p z. split; [intros []|]. intros (s & Hs). discriminate.
  Qed.

  Implicit Types (hp : heap (I:=pkg)).

  (* ---------------------------------------------------------------- queue_max *)
  Lemma fold_max_ge (r : list (pkg * (Z * VS))) : forall z0,
    (z0 <= fold_left (fun m pz => Z.max m (fst (snd pz))) r z0)%Z
    /\ forall p z s, In (p, (z, s)) r -> (z <= fold_left (fun m pz => Z.max m (fst (snd pz))) r z0)%Z.
  Proof.
    induction r as [|[k [zk sk]] r IH]; intros z0; cbn [fold_left fst snd].
    - split; [lia|intros p z s []].
    - destruct (IH (Z.max z0 zk)) as [H1 H2]. split; [lia|].
      intros p z s [E|Hin]; [injection E as _ <- _; lia|eauto].
  Qed.

  Lemma fold_max_in (r : list (pkg * (Z * VS))) : forall z0,
    fold_left (fun m pz => Z.max m (fst (snd pz))) r z0 = z0
    \/ exists p s, In (p, (fold_left (fun m pz => Z.max m (fst (snd pz))) r z0, s)) r.
  Proof.
    induction r as [|[k [zk sk]] r IH]; intros z0; cbn [fold_left fst snd]; [now left|].
    destruct (IH (Z.max z0 zk)) as [E|(p & s & Hin)].
    - rewrite E. destruct (Z.max_spec z0 zk) as [[_ E1]|[_ E1]]; rewrite E1.
      + right. exists k, sk. now left.
      + now left.
    - right. exists p, s. now right.
  Qed.

  Lemma queue_max_None (q : list (pkg * (Z * VS))) : queue_max q = None <-> q = [].
  Proof. destruct q as [|[k [z s]] r]; cbn; split; congruence. Qed.

  Lemma queue_max_ge (q : list (pkg * (Z * VS))) mx : queue_max q = Some mx -> forall p z s, In (p, (z, s)) q -> (z <= mx)%Z.
  Proof.
    destruct q as [|[k [zk sk]] r]; cbn [queue_max]; [discriminate|]. intros E. injection E as <-.
    destruct (fold_max_ge r zk) as [H1 H2]. intros p z s [E|Hin]; [injection E as _ <- _; exact H1|eauto].
  Qed.

  Lemma queue_max_in (q : list (pkg * (Z * VS))) mx : queue_max q = Some mx -> exists p s, In (p, (mx, s)) q.
  Proof.
    destruct q as [|[k [zk sk]] r]; cbn [queue_max]; [discriminate|]. intros E. injection E as <-.
    destruct (fold_max_in r zk) as [E|(p & s & Hin)].
    - rewrite E. exists k, sk. now left.
    - exists p, s. now right.
  Qed.

  (* ---------------------------------------------------------------- push *)
  Lemma push_In hp p z p' z' : hwf hp ->
    In (p', z') (heap_push N.eqb hp p z) <-> (p' = p /\ z' = z) \/ (p' <> p /\ In (p', z') hp).
  Proof.
    intros Hwf. pose proof (H_push_perm hp p z Hwf) as Hp.
    assert (Hf : In (p', z') ((p, z) :: filter (fun e => negb (N.eqb p (fst e))) hp)
                 <-> (p' = p /\ z' = z) \/ (p' <> p /\ In (p', z') hp)).
    { cbn [In]. rewrite filter_In. cbn [fst]. split.
      - intros [E|[Hin Hb]]; [injection E as -> ->; now left|]. right. split; [|exact Hin].
        destruct (N.eqb_spec p p'); [discriminate|congruence].
      - intros [[-> ->]|[Hne Hin]]; [now left|]. right. split; [exact Hin|].
        destruct (N.eqb_spec p p'); [congruence|reflexivity]. }
    rewrite <- Hf. split; intros H.
    - eapply Permutation_in; [exact Hp|exact H].
    - eapply Permutation_in; [apply Permutation_sym; exact Hp|exact H].
  Qed.

  Lemma HQ'_push q hp p prio s : HQ' q hp -> HQ' (set p (prio, s) q) (heap_push N.eqb hp p prio).
  Proof.
    intros (Hnd & Hwf & Hord & Hin). split; [now apply nodup_set|].
    split; [now apply H_push_wf|]. split; [now apply H_push_ord|].
    intros p' z'. rewrite (push_In hp p prio p' z' Hwf). destruct (N.eq_dec p' p) as [->|Hne].
    - rewrite get_set_same. split.
      + intros [[_ ->]|[Hne _]]; [now exists s|congruence].
      + intros (s0 & E). injection E as -> _. now left.
    - rewrite get_set_other by congruence. rewrite <- Hin. split.
      + intros [[E _]|[_ H]]; [congruence|exact H].
      + intros H. now right.
  Qed.

  Lemma do_prioritize_HQ cands : forall q (tr : list event) n q' tr' n2 hp,
    do_prioritize O cands q tr n = inl (q', tr', n2) -> HQ' q hp ->
    n <= n2 /\ HQ' q' (heap_pushes hp (firstn (n2 - n) tr)).
  Proof.
    induction cands as [|[p s] r IH]; intros q tr n q' tr' n2 hp; cbn [do_prioritize].
    - intros E HQ0. injection E as <- <- <-. split; [lia|]. rewrite Nat.sub_diag. cbn. exact HQ0.
    - destruct tr as [|[ok|p' s' prio| |] tr1]; try discriminate.
      destruct (N.eqb p p' && vs_eqb O s s') eqn:Eb; [|discriminate].
      apply andb_prop in Eb. destruct Eb as [Eb _]. apply N.eqb_eq in Eb. subst p'.
      intros E HQ0. destruct (IH _ _ _ _ _ _ _ E (HQ'_push q hp p prio s HQ0)) as [Hle HQ1].
      split; [lia|]. replace (n2 - n) with (S (n2 - S n)) by lia. cbn [firstn heap_pushes]. exact HQ1.
  Qed.

  Lemma do_prioritize_err cands : forall q (tr : list event) n o,
    do_prioritize O cands q tr n = inr o -> exists k w, o = OMismatch k w.
  Proof.
    induction cands as [|[p s] r IH]; intros q tr n o; cbn [do_prioritize]; [discriminate|].
    destruct tr as [|[ok|p' s' prio| |] tr1]; try (intros E; injection E as <-; eauto).
    destruct (N.eqb p p' && vs_eqb O s s'); [apply IH|intros E; injection E as <-; eauto].
  Qed.

  (* ---------------------------------------------------------------- pop *)
  Lemma HQ'_pop q hp hpk z hp3 mx :
    HQ' q hp -> queue_max q = Some mx -> heap_pop hp = Some ((hpk, z), hp3) ->
    (exists s, get hpk q = Some (mx, s)) /\ HQ' (remove hpk q) hp3.
  Proof.
    intros (Hnd & Hwf & Hord & Hin) Hmx Hpop.
    pose proof (H_pop_perm _ _ _ Hpop) as Hperm.
    assert (Hk : In (hpk, z) hp) by (eapply Permutation_in; [apply Permutation_sym; exact Hperm|now left]).
    destruct (proj1 (Hin hpk z) Hk) as (s & Hs).
    assert (Hz : z = mx).
    { destruct (queue_max_in q mx Hmx) as (p0 & s0 & Hin0).
      apply In_get in Hin0; [|exact Hnd].
      assert (H0 : In (p0, mx) hp) by (apply Hin; eauto).
      pose proof (H_pop_max _ _ _ Hord Hpop _ H0) as Hle. cbn [snd] in Hle.
      pose proof (queue_max_ge q mx Hmx hpk z s (get_In _ _ _ Hs)). lia. }
    split; [exists s; now rewrite <- Hz|].
    split; [now apply nodup_remove|]. split; [eapply H_pop_wf; eauto|]. split; [eapply H_pop_ord; eauto|].
    assert (Hnk : ~ In hpk (map fst hp3)).
    { pose proof (Permutation_map fst Hperm) as Hpm. cbn [map fst] in Hpm.
      pose proof (Permutation_NoDup Hpm Hwf) as Hn. now inversion Hn. }
    intros p' z'. destruct (N.eq_dec p' hpk) as [->|Hne].
    - rewrite get_remove_same. split.
      + intros H. exfalso. apply Hnk. change hpk with (fst (hpk, z')). now apply in_map.
      + intros (s0 & E). discriminate.
    - rewrite get_remove_other by congruence. rewrite <- Hin. split; intros H.
      + eapply Permutation_in; [apply Permutation_sym; exact Hperm|now right].
      + pose proof (Permutation_in _ Hperm H) as [E|H']; [congruence|exact H'].
  Qed.

  (* ---------------------------------------------------------------- frame lemmas *)
  Lemma add_decision_queue p q v p' : add_decision O p q v = Good p' -> queue p' = queue p.
  Proof.
    unfold add_decision. destruct (index_of q (assignments p) 0); [|discriminate].
    destruct (get q (assignments p)) as [a|]; [|discriminate].
    destruct (ai a); [discriminate|]. destruct (negb _); [discriminate|]. destruct (negb _); [discriminate|].
    intros E. now injection E as <-.
  Qed.

  Lemma add_derivation_queue p q cause cts p' : add_derivation O p q cause cts = Good p' -> queue p' = queue p.
  Proof.
    unfold add_derivation, bind, req. destruct (get q cts); [|discriminate].
    destruct (index_of q (assignments p) 0); [destruct (get q (assignments p)) as [a|]; [destruct (ai a); [discriminate|]|]|];
      intros E; now injection E as <-.
  Qed.

  Lemma add_version_queue pso q v range stl p' : add_version O pso q v range stl = Good p' -> queue p' = queue pso.
  Proof.
    unfold add_version. destruct (negb (backtracked pso)); [apply add_decision_queue|].
    destruct (forallb _ _); [apply add_decision_queue|]. intros E. now injection E as <-.
  Qed.

  Definition qor (q0 q : list (pkg * (Z * VS))) : Prop := q = q0 \/ q = [].

  Lemma backtrack_queue st inc chg Lv st' : backtrack O st inc chg Lv = Good st' -> queue (ps st') = [].
  Proof.
    unfold backtrack, bind. destruct (ps_backtrack (ps st) Lv) as [p'|] eqn:Ep; [|discriminate].
    assert (Hq : queue p' = []).
    { unfold ps_backtrack, bind in Ep. destruct (backtrack_asg Lv (assignments (ps st))); [|discriminate].
      now injection Ep as <-. }
    destruct chg.
    - intros E. now rewrite (merge_incompatibility_ps _ _ _ _ E).
    - intros E. now injection E as <-.
  Qed.

  Lemma conflict_resolution_q fuel : forall st cur chg q0,
    qor q0 (queue (ps st)) ->
    match conflict_resolution O fuel st cur chg with
    | inl (CROk st' _ _) => qor q0 (queue (ps st'))
    | inl (CRTerminal st' _) => qor q0 (queue (ps st'))
    | inr _ => True
    end.
  Proof.
    induction fuel as [|fuel IH]; intros st cur chg q0 Hst; cbn [conflict_resolution]; [exact I|].
    destruct (nth_error (store st) cur) as [ci|]; [|exact I].
    destruct (is_terminal O ci (root st) (rootv st)); [exact Hst|].
    destruct (satisfier_search O (terms ci) (ps st) (store st)) as [[p [Lv|cause]]|] eqn:Es; [| |exact I].
    - destruct (backtrack O st cur chg Lv) as [st'|] eqn:Eb; [|exact I].
      right. eapply backtrack_queue; eauto.
    - destruct (nth_error (store st) cause) as [cj|]; [|exact I].
      destruct (prior_cause O cur cause (terms ci) (terms cj) p) as [pc|]; [|exact I].
      cbn [alloc]. apply IH. exact Hst.
  Qed.

  Lemma scan_incompats_q ids : forall st buffer st' b' c q0,
    qor q0 (queue (ps st)) -> scan_incompats O ids st buffer = Good (st', b', c) -> qor q0 (queue (ps st')).
  Proof.
    induction ids as [|id ids IH]; intros st buffer st' b' c q0 Hst; cbn [scan_incompats].
    - intros E0. now injection E0 as <- _ _.
    - destruct (cached id (contradicted st)); [now apply IH|].
      unfold bind, req. destruct (nth_error (store st) id) as [ci|]; [|discriminate].
      destruct (relation O (terms ci) (term_for (ps st))) as [| |q|].
      + intros E0. now injection E0 as <- _ _.
      + apply IH. exact Hst.
      + destruct (add_derivation O (ps st) q id (terms ci)) as [p'|] eqn:Ed; [|discriminate].
        apply IH. cbn [ps upd_cache upd_ps]. now rewrite (add_derivation_queue _ _ _ _ _ Ed).
      + now apply IH.
  Qed.

  Lemma unit_propagation_q fuel : forall st buffer q0,
    qor q0 (queue (ps st)) ->
    match unit_propagation O fuel st buffer with
    | inl (UPOk st') => qor q0 (queue (ps st'))
    | inl (UPConflict st' _) => qor q0 (queue (ps st'))
    | inr _ => True
    end.
  Proof.
    induction fuel as [|fuel IH]; intros st buffer q0 Hst; cbn [unit_propagation]; [exact I|].
    destruct (rev buffer) as [|cur rest]; [exact Hst|].
    destruct (get cur (index st)) as [ids|]; [|exact I].
    destruct (scan_incompats O (rev ids) st (rev rest)) as [[[st1 b2] [conflict|]]|] eqn:Es; [| |exact I].
    - pose proof (scan_incompats_q _ _ _ _ _ _ q0 Hst Es) as H1.
      pose proof (conflict_resolution_q fuel st1 conflict false q0 H1) as Hcr.
      destruct (conflict_resolution O fuel st1 conflict false) as [[st2 q rc|st2 id]|]; [|exact Hcr|exact I].
      destruct (nth_error (store st2) rc) as [rci|]; [|exact I].
      destruct (add_derivation O (ps st2) q rc (terms rci)) as [p'|] eqn:Ed; [|exact I].
      apply IH. cbn [ps upd_cache upd_ps]. now rewrite (add_derivation_queue _ _ _ _ _ Ed).
    - apply IH. exact (scan_incompats_q _ _ _ _ _ _ q0 Hst Es).
  Qed.

  (* unit propagation leaves the queue unchanged or clears it *)
  Lemma unit_propagation_queue fuel st buffer st1 :
    unit_propagation O fuel st buffer = inl (UPOk st1) ->
    queue (ps st1) = queue (ps st) \/ queue (ps st1) = [].
  Proof.
    intros E. pose proof (unit_propagation_q fuel st buffer (queue (ps st)) (or_introl eq_refl)) as H.
    rewrite E in H. exact H.
  Qed.

  Lemma HQ'_after_propagation q0 q hp : qor q0 q -> HQ' q0 hp -> HQ' q (heap_after_propagation q hp).
  Proof.
    intros [->| ->] H; [|exact HQ'_nil]. destruct q0; [exact HQ'_nil|exact H].
  Qed.

  (* ---------------------------------------------------------------- main theorems *)
  Theorem resolve_loop_h_pick_max : forall fuel st next added hp tr n log k p,
    HQ' (queue (ps st)) hp ->
    fst (fst (fst (resolve_loop_h O veqb fuel st next added hp tr n log))) <> OPickNotMax k p.
  Proof.
    induction fuel as [|fuel IH]; intros st next added hp tr n log k p0 Hst; cbn [resolve_loop_h].
    { cbn. discriminate. }
    destruct tr as [|[ok| | |] tr1]; try (cbn; discriminate).
    destruct ok; cbn [negb]; [|cbn; discriminate].
    pose proof (unit_propagation_q (S fuel) st [next] (queue (ps st)) (or_introl eq_refl)) as Hup.
    destruct (unit_propagation O (S fuel) st [next]) as [[st1|st1 id]|[|s0]]; try (cbn; discriminate).
    2:{ destruct (build_derivation_tree (store st1) id); cbn; discriminate. }
    destruct (do_prioritize O (pick_candidates (ps st1)) (queue (ps st1)) tr1 (S n)) as [[[q tr2] n2]|o] eqn:Ep.
    2:{ destruct (do_prioritize_err _ _ _ _ _ Ep) as (k' & w & ->). cbn. discriminate. }
    pose proof (HQ'_after_propagation _ _ hp Hup Hst) as H1.
    destruct (do_prioritize_HQ _ _ _ _ _ _ _ _ Ep H1) as [_ H2].
    set (hp2 := heap_pushes _ _) in *.
    set (p1 := ps st1) in *. set (log1 := log ++ [(undecided_positive p1, q, n2)]).
    destruct (queue_max q) as [mx|] eqn:Emx.
    2:{ unfold res_out. destruct (extract_solution p1); cbn; discriminate. }
    destruct tr2 as [|[| |p s ans|] tr3]; try (cbn; discriminate).
    destruct (heap_pop hp2) as [[[hpk z] hp3]|] eqn:Epop; [|cbn; discriminate].
    destruct (N.eqb_spec p hpk) as [->|Hne]; cbn [negb]; [|cbn; discriminate].
    destruct (HQ'_pop _ _ _ _ _ _ H2 Emx Epop) as [(s1 & Hg) H3].
    rewrite Hg. rewrite Z.eqb_refl. cbn [negb].
    set (st2 := upd_ps st1 _).
    assert (Hq2 : queue (ps st2) = remove hpk q) by reflexivity.
    destruct (term_for (ps st2) hpk) as [ti|]; [|cbn; discriminate].
    destruct ti as [cur_set|cur_set]; [|cbn; discriminate].
    destruct (vs_eqb O s cur_set); cbn [negb]; [|cbn; discriminate].
    destruct ans as [v| |]; [| |cbn; discriminate].
    - destruct (negb (t_contains O (Pos cur_set) v)); [cbn; discriminate|].
      destruct (added_has veqb added hpk v).
      + unfold res_out. destruct (add_decision O (ps st2) hpk v) as [p'|] eqn:Ed; [|cbn; discriminate].
        apply IH. cbn [ps upd_ps]. rewrite (add_decision_queue _ _ _ _ Ed), Hq2. exact H3.
      + destruct tr3 as [|[| | |p' v' dans] tr4]; try (cbn; discriminate).
        destruct (N.eqb hpk p' && veqb v v'); cbn [negb]; [|cbn; discriminate].
        destruct dans as [deps|m|]; [| |cbn; discriminate].
        * unfold res_out.
          destruct (add_incompatibility_from_dependencies O st2 hpk v deps) as [[st3 range]|] eqn:Ea; [|cbn; discriminate].
          pose proof (add_from_dependencies_ps _ _ _ _ _ _ _ Ea) as Eps.
          destruct (add_version O (ps st3) hpk v range (store st3)) as [pn|] eqn:Eav; [|cbn; discriminate].
          apply IH. cbn [ps upd_ps]. rewrite (add_version_queue _ _ _ _ _ _ Eav), Eps, Hq2. exact H3.
        * unfold res_out.
          destruct (add_incompatibility O st2 (custom_version O hpk v m)) as [st3|] eqn:Ea; [|cbn; discriminate].
          apply IH. rewrite (add_incompatibility_ps _ _ _ _ Ea), Hq2. exact H3.
    - cbn [no_versions]. unfold res_out.
      destruct (add_incompatibility O st2 _) as [st3|] eqn:Ea; [|cbn; discriminate].
      apply IH. rewrite (add_incompatibility_ps _ _ _ _ Ea), Hq2. exact H3.
  Qed.

  Theorem resolve_h_pick_max : forall fuel r v tr k p,
    fst (fst (fst (resolve_h O veqb fuel r v tr))) <> OPickNotMax k p.
  Proof.
    intros fuel r v tr k p. unfold resolve_h. apply resolve_loop_h_pick_max. cbn. exact HQ'_nil.
  Qed.
End DetQueue.

Check resolve_h_pick_max.
