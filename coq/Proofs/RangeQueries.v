(* C15: queries (bounding_range, as_singleton, from_range_bounds, is_empty, iter) and Display. *)
From Coq Require Import Orders OrdersFacts List Bool.
From PG Require Import Model.Text Model.Range Proofs.PosOrder Proofs.RangeTables Proofs.RangeSem
  Proofs.RangeInter Proofs.RangeMore Proofs.RangeCompl Proofs.RangeCtors.

Module RangeQueriesP (V : UsualOrderedTypeFull).
  Module Export RCt := RangeCtorsP V.

  Lemma is_empty_spec r : canonical r -> (is_empty r = true <-> forall x, ~ den r x).
  Proof.
    intros Hc. destruct r as [|s r]; cbn [is_empty].
    - split; [intros _ x; apply den_nil|reflexivity].
    - split; [discriminate|]. intros H. exfalso. destruct Hc as (Hv & _).
      apply (H (lo s)). apply den_cons. left. split; [porder|exact Hv].
  Qed.

  Lemma as_singleton_spec r v : as_singleton r = Some v <-> r = singleton v.
  Proof.
    unfold as_singleton, singleton.
    destruct r as [|[[a|a|] [b|b|]] [|? ?]]; try (split; [discriminate|intros H; discriminate H]).
    destruct (veqb a b) eqn:E.
    - apply veqb_eq in E. subst b. split; [intros H; injection H as ->; reflexivity|intros H; injection H as ->; reflexivity].
    - apply veqb_neq in E. split; [discriminate|]. intros H. injection H as -> ->. congruence.
  Qed.

  Lemma as_singleton_den r v :
    canonical r -> (as_singleton r = Some v <-> forall x, den r x <-> x = P v At).
  Proof.
    intros Hc. rewrite as_singleton_spec. split.
    - intros -> x. unfold singleton. rewrite single_seg_den. cbn [lo_of hi_of]. split; [intros [? ?]; porder|intros ->; split; porder].
    - intros H. apply range_ext_eq; [exact Hc|apply single_seg_canonical; cbn; apply ple_refl|].
      intros x. rewrite H. unfold singleton. rewrite single_seg_den. cbn [lo_of hi_of].
      split; [intros ->; split; porder|intros [? ?]; porder].
  Qed.

  Lemma last_hi_bound r : forall s x,
    canonical (s :: r) -> den (s :: r) x -> x <=p hi (last (s :: r) (Unb, Unb)).
  Proof.
    induction r as [|t r IH]; intros s x Hc Hx.
    - cbn. apply den_cons in Hx. destruct Hx as [[_ Hx]|Hx]; [exact Hx|destruct (den_nil _ Hx)].
    - change (last (s :: t :: r) (Unb, Unb)) with (last (t :: r) (Unb, Unb)).
      apply den_cons in Hx. destruct Hx as [[_ Hx]|Hx].
      + destruct Hc as (Hv & Ha & Hc). cbn [above] in Ha. apply gap_lt in Ha.
        assert (Hl : den (t :: r) (lo t)).
        { apply den_cons. left. destruct Hc as (Hv1 & _). split; [porder|exact Hv1]. }
        specialize (IH t (lo t) Hc Hl). porder.
      + apply (IH t x); [exact (canonical_tail _ _ Hc)|exact Hx].
  Qed.

  Lemma bounding_range_spec r :
    (bounding_range r = None <-> r = [])
    /\ (forall s e, bounding_range r = Some (s, e) -> canonical r ->
          forall x, den r x -> lo_of s <=p x /\ x <=p hi_of e).
  Proof.
    split.
    - destruct r as [|[? ?] ?]; cbn; split; try discriminate; reflexivity.
    - intros s e Hb Hc x Hx. destruct r as [|[s0 e0] r]; [discriminate|]. cbn [bounding_range] in Hb.
      injection Hb as <- <-. split.
      + exact (canonical_den_ge_head _ _ _ Hc Hx).
      + exact (last_hi_bound r (s0, e0) x Hc Hx).
  Qed.

  Lemma from_range_bounds_spec s e :
    canonical (from_range_bounds s e)
    /\ (forall x, den (from_range_bounds s e) x <-> lo_of s <=p x /\ x <=p hi_of e)
    /\ ((forall x, ~ (lo_of s <=p x /\ x <=p hi_of e)) -> from_range_bounds s e = []).
  Proof.
    unfold from_range_bounds. destruct (valid_segment s e) eqn:E.
    - apply valid_segment_spec in E. split; [now apply single_seg_canonical|]. split; [apply single_seg_den|].
      intros H. exfalso. apply (H (lo_of s)). split; [porder|exact E].
    - split; [exact I|]. split; [|reflexivity]. intros x. split; [intros H; destruct (den_nil _ H)|].
      intros [H1 H2]. assert (lo_of s <=p hi_of e) by porder. apply valid_segment_spec in H. congruence.
  Qed.

  (* std::ops::RangeBounds::contains on versions *)
  Definition std_contains (s e : bnd) (v : V.t) : Prop :=
    match s with Incl a => V.le a v | Excl a => V.lt a v | Unb => True end
    /\ match e with Incl b => V.le v b | Excl b => V.lt v b | Unb => True end.

  Lemma from_range_bounds_contains s e v :
    contains (from_range_bounds s e) v = true <-> std_contains s e v.
  Proof.
    destruct (from_range_bounds_spec s e) as (Hc & Hd & _).
    rewrite contains_spec, Hd by assumption. destruct side_facts as (F1 & F2 & F3).
    unfold std_contains. destruct s as [a|a|], e as [b|b|]; cbn [lo_of hi_of];
      rewrite ?F1, ?F2, ?F3; intuition (try apply neginf_le; try apply le_posinf).
  Qed.

  Lemma iter_union r x : den r x <-> exists sg, In sg (iter r) /\ in_seg x sg.
  Proof. reflexivity. Qed.

  (* ---------------- Display ---------------- *)

  Definition tok_sem (t : token) (x : pos) : Prop :=
    match t with
    | TStar => True
    | TVer v => x = P v At
    | TLt v => x <=p P v Before
    | TLe v => x <=p P v At
    | TGt v => P v After <=p x
    | TGe v => P v At <=p x
    end.
  (* ", " is "and", " | " is "or", "∅" (no segment) is the empty set *)
  Definition tokens_sem (tl : list (list token)) (x : pos) : Prop :=
    exists conj, In conj tl /\ Forall (fun t => tok_sem t x) conj.

  Lemma seg_tokens_sem sg x : Forall (fun t => tok_sem t x) (seg_tokens sg) <-> in_seg x sg.
  Proof.
    destruct sg as [[a|a|] [b|b|]]; unfold in_seg, lo, hi; cbn [seg_tokens fst snd lo_of hi_of].
    - destruct (veqb a b) eqn:E.
      + apply veqb_eq in E. subst b. split.
        * intros H. inversion H; subst. cbn in H2. subst x. split; porder.
        * intros [H1 H2]. constructor; [cbn; porder|constructor].
      + split; [intros H; inversion H as [|? ? H1 H2]; subst; inversion H2; subst; cbn in *; tauto|].
        intros [H1 H2]. repeat constructor; assumption.
    - split; [intros H; inversion H as [|? ? H1 H2]; subst; inversion H2; subst; cbn in *; tauto|].
      intros [H1 H2]. repeat constructor; assumption.
    - split; [intros H; inversion H; subst; cbn in *; split; [assumption|apply le_posinf]|].
      intros [H1 H2]. repeat constructor; assumption.
    - split; [intros H; inversion H as [|? ? H1 H2]; subst; inversion H2; subst; cbn in *; tauto|].
      intros [H1 H2]. repeat constructor; assumption.
    - split; [intros H; inversion H as [|? ? H1 H2]; subst; inversion H2; subst; cbn in *; tauto|].
      intros [H1 H2]. repeat constructor; assumption.
    - split; [intros H; inversion H; subst; cbn in *; split; [assumption|apply le_posinf]|].
      intros [H1 H2]. repeat constructor; assumption.
    - split; [intros H; inversion H; subst; cbn in *; split; [apply neginf_le|assumption]|].
      intros [H1 H2]. repeat constructor; assumption.
    - split; [intros H; inversion H; subst; cbn in *; split; [apply neginf_le|assumption]|].
      intros [H1 H2]. repeat constructor; assumption.
    - split; [intros _; split; [apply neginf_le|apply le_posinf]|]. intros _. repeat constructor.
  Qed.

  Lemma display_tokens_sem r x : tokens_sem (display_tokens r) x <-> den r x.
  Proof.
    unfold tokens_sem, display_tokens, den. split.
    - intros (conj & Hin & Hs). apply in_map_iff in Hin. destruct Hin as (sg & <- & Hin).
      exists sg. split; [exact Hin|]. now apply seg_tokens_sem.
    - intros (sg & Hin & Hs). exists (seg_tokens sg). split; [now apply in_map|]. now apply seg_tokens_sem.
  Qed.

  Lemma display_tokens_injective a b :
    canonical a -> canonical b -> display_tokens a = display_tokens b -> a = b.
  Proof.
    intros Ha Hb E. apply range_ext_eq; try assumption. intros x.
    rewrite <- !display_tokens_sem. now rewrite E.
  Qed.

  Lemma display_is_render show r : display show r = render show (display_tokens r).
  Proof.
    assert (H : forall sg, display_seg show sg = join (txt ", ") (map (render_token show) (seg_tokens sg))).
    { intros [[a|a|] [b|b|]]; cbn [display_seg seg_tokens]; try destruct (veqb a b); cbn [map join render_token];
        rewrite <- ?app_assoc; reflexivity. }
    unfold display, render, display_tokens. destruct r as [|s r]; [reflexivity|].
    cbn [map]. f_equal. f_equal; [apply H|]. rewrite map_map. apply map_ext. exact H.
  Qed.

End RangeQueriesP.
