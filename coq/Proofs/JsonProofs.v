(* Lemmas for C19 (serde round trips through the JSON model of Model/Json.v). *)
From Coq Require Import List NArith ZArith Bool Lia.
From PG Require Import Model.Text Model.SemVer Model.Range Model.Offline Model.Instances Model.Json.
From PG Require Import Proofs.SemVerProofs.
Import ListNotations.
Open Scope N_scope.

(* ---------- text equality ---------- *)

Lemma text_eqb_refl s : text_eqb s s = true.
Proof. induction s as [|c r IH]; cbn [text_eqb]; [reflexivity|]. now rewrite N.eqb_refl, IH. Qed.

Lemma text_eqb_eq a b : text_eqb a b = true -> a = b.
Proof.
  revert b; induction a as [|x a IH]; intros [|y b]; cbn [text_eqb]; try discriminate; [reflexivity|].
  intros H. apply andb_prop in H as [H1 H2]. apply N.eqb_eq in H1. subst. f_equal. now apply IH.
Qed.

Lemma tag_incl_incl : text_eqb s_included s_included = true. Proof. reflexivity. Qed.
Lemma tag_excl_incl : text_eqb s_excluded s_included = false. Proof. reflexivity. Qed.
Lemma tag_excl_excl : text_eqb s_excluded s_excluded = true. Proof. reflexivity. Qed.
Lemma tag_unb_unb : text_eqb s_unbounded s_unbounded = true. Proof. reflexivity. Qed.

(* ---------- sequences ---------- *)

Lemma map_opt_map {A B : Type} (f : A -> B) (g : B -> option A) (l : list A) :
  (forall x, In x l -> g (f x) = Some x) -> map_opt g (map f l) = Some l.
Proof.
  induction l as [|x r IH]; intros H; cbn [map map_opt]; [reflexivity|].
  rewrite (H x (or_introl eq_refl)), IH; [reflexivity|]. intros y Hy. apply H. now right.
Qed.

Lemma map_opt_map' {A B C : Type} (f : A -> B) (g : B -> option C) (h : A -> C) (l : list A) :
  (forall x, In x l -> g (f x) = Some (h x)) -> map_opt g (map f l) = Some (map h l).
Proof.
  induction l as [|x r IH]; intros H; cbn [map map_opt]; [reflexivity|].
  rewrite (H x (or_introl eq_refl)), IH; [reflexivity|]. intros y Hy. apply H. now right.
Qed.

Lemma map_opt_length {A B : Type} (f : A -> option B) l l' : map_opt f l = Some l' -> length l' = length l.
Proof.
  revert l'; induction l as [|x r IH]; intros l'; cbn [map_opt].
  - intros E; inversion E; reflexivity.
  - destruct (f x); [|discriminate]. destruct (map_opt f r) eqn:E; [|discriminate].
    intros E'; inversion E'; subst. cbn [length]. f_equal. now apply IH.
Qed.

(* ---------- bounds, intervals, ranges ---------- *)

Definition bound_all {V : Type} (P : V -> Prop) (b : bound V) : Prop :=
  match b with Incl v | Excl v => P v | Unb => True end.
Definition range_all {V : Type} (P : V -> Prop) (r : list (bound V * bound V)) : Prop :=
  Forall (fun se => bound_all P (fst se) /\ bound_all P (snd se)) r.

Section Codec.
  Context {V : Type} (enc_v : V -> json) (dec_v : json -> option V).
  Variable P : V -> Prop.
  Hypothesis dec_enc : forall v, P v -> dec_v (enc_v v) = Some v.

  Lemma decode_encode_bound b : bound_all P b -> decode_bound dec_v (encode_bound enc_v b) = Some b.
  Proof.
    destruct b as [v|v|]; cbn [bound_all encode_bound decode_bound]; intros Hb.
    - rewrite tag_incl_incl, dec_enc by assumption. reflexivity.
    - rewrite tag_excl_incl, tag_excl_excl, dec_enc by assumption. reflexivity.
    - rewrite tag_unb_unb. reflexivity.
  Qed.

  Lemma decode_encode_interval se :
    bound_all P (fst se) -> bound_all P (snd se) ->
    decode_interval dec_v (encode_interval enc_v se) = Some se.
  Proof.
    destruct se as [s e]; cbn [fst snd encode_interval decode_interval]; intros Hs He.
    now rewrite !decode_encode_bound.
  Qed.

  Lemma decode_encode_range r : range_all P r -> decode_range dec_v (encode_range enc_v r) = Some r.
  Proof.
    intros Hr. unfold encode_range, decode_range. apply map_opt_map.
    intros se Hin. unfold range_all in Hr. rewrite Forall_forall in Hr.
    destruct (Hr se Hin). now apply decode_encode_interval.
  Qed.

  (* ---- the legacy encoding ---- *)
  Hypothesis not_bound : version_json_not_a_bound enc_v dec_v.

  Lemma decode_opt_some b : P b -> decode_opt dec_v (enc_v b) = Some (Some b).
  Proof.
    intros Hb. pose proof (dec_enc b Hb) as E. destruct (not_bound b) as [_ Hn].
    unfold decode_opt. destruct (enc_v b); try congruence; now rewrite E.
  Qed.

  Lemma decode_legacy_interval ab :
    P (fst ab) -> (match snd ab with Some b => P b | None => True end) ->
    decode_interval dec_v (encode_legacy_interval enc_v ab) = Some (legacy_segment ab).
  Proof.
    destruct ab as [a ob]; cbn [fst snd encode_legacy_interval decode_interval legacy_segment]; intros Ha Hb.
    destruct (not_bound a) as [Na _]. rewrite Na. unfold decode_legacy. rewrite (dec_enc a Ha).
    destruct ob as [b|].
    - now rewrite decode_opt_some.
    - reflexivity.
  Qed.

  Lemma decode_legacy_range l :
    Forall (fun ab => P (fst ab) /\ match snd ab with Some b => P b | None => True end) l ->
    decode_range dec_v (encode_legacy enc_v l) = Some (map legacy_segment l).
  Proof.
    intros Hl. unfold encode_legacy, decode_range. apply map_opt_map'.
    intros ab Hin. rewrite Forall_forall in Hl. destruct (Hl ab Hin). now apply decode_legacy_interval.
  Qed.
End Codec.

(* ---------- version payloads ---------- *)

Lemma dec_enc_num z : dec_num (enc_num z) = Some z.
Proof. reflexivity. Qed.

Definition Z_u32 (z : Z) : Prop := (0 <= z <= 4294967295)%Z.

Lemma z_in_u32_iff z : z_in_u32 z = true <-> Z_u32 z.
Proof. unfold z_in_u32, Z_u32. rewrite andb_true_iff, !Z.leb_le. tauto. Qed.

Lemma dec_enc_u32 z : Z_u32 z -> dec_u32 (enc_num z) = Some z.
Proof. intros H. cbn [dec_u32 enc_num]. apply z_in_u32_iff in H. now rewrite H. Qed.

Lemma dec_u32_sound j z : dec_u32 j = Some z -> j = JNum z /\ Z_u32 z.
Proof.
  destruct j; cbn [dec_u32]; try discriminate.
  destruct (z_in_u32 z0) eqn:E; [|discriminate]. intros H; inversion H; subst.
  split; [reflexivity|now apply z_in_u32_iff].
Qed.

Lemma num_not_a_bound dec : version_json_not_a_bound enc_num dec.
Proof. intros z. split; [reflexivity|discriminate]. Qed.

(* SemanticVersion *)
Definition SV_u32 (v : semver) : Prop := sv_in_u32 v = true.

Lemma dec_enc_sv v : SV_u32 v -> dec_sv (enc_sv v) = Some v.
Proof. intros H. cbn [dec_sv enc_sv]. now rewrite sv_print_parse. Qed.

Lemma dec_N_head n : exists c r, dec_N n = c :: r /\ is_digit c = true.
Proof.
  pose proof (dec_N_digits n) as Hd. pose proof (dec_N_nonempty n) as Hne.
  destruct (dec_N n) as [|c r]; [congruence|]. inversion Hd; subst. eauto.
Qed.

Lemma sv_display_not_unbounded v : text_eqb (sv_display v) s_unbounded = false.
Proof.
  unfold sv_display. destruct (dec_N_head (major v)) as (c & r & E & Hc). rewrite E.
  change s_unbounded with (85 :: txt "nbounded"). cbn [app text_eqb].
  destruct (N.eqb_spec c 85) as [->|]; [discriminate Hc|reflexivity].
Qed.

Lemma sv_not_a_bound dec : version_json_not_a_bound enc_sv dec.
Proof.
  intros v. split; [|discriminate]. cbn [enc_sv decode_bound]. now rewrite sv_display_not_unbounded.
Qed.

(* ---------- the legacy reading as a set (integer versions) ---------- *)

Lemma contains_between a b v : RZ.contains [(Incl a, Excl b)] v = ((a <=? v) && (v <? b))%Z.
Proof.
  unfold RZ.contains, RZ.cursor, RZ.within_bounds, RZ.vltb, RZ.vleb, ZV.compare. cbn [fst snd].
  destruct (Z.compare_spec v a), (Z.compare_spec v b), (Z.leb_spec a v), (Z.ltb_spec v b); cbn; try reflexivity; lia.
Qed.

Lemma contains_from a v : RZ.contains [(Incl a, Unb)] v = (a <=? v)%Z.
Proof.
  unfold RZ.contains, RZ.cursor, RZ.within_bounds, RZ.vltb, ZV.compare. cbn [fst snd].
  destruct (Z.compare_spec v a), (Z.leb_spec a v); cbn; try reflexivity; lia.
Qed.

(* ---------- map keys ---------- *)

Lemma N_of_key_of_N n : n <= u32_max -> N_of_key (key_of_N n) = Some n.
Proof. intros H. unfold N_of_key, key_of_N. now rewrite parse_u32_dec, text_eqb_refl. Qed.

Lemma dec_Z_of_N n : dec_Z (Z.of_N n) = dec_N n.
Proof. destruct n; reflexivity. Qed.

Lemma Z_of_key_of_Z z : Z_u32 z -> Z_of_key (key_of_Z z) = Some z.
Proof.
  intros [H0 H1]. unfold Z_of_key, key_of_Z. rewrite <- (Z2N.id z H0), dec_Z_of_N, N_of_key_of_N.
  - reflexivity.
  - unfold u32_max. lia.
Qed.

(* a key that decodes is the canonical decimal text of the number *)
Lemma N_of_key_sound s n : N_of_key s = Some n -> s = key_of_N n /\ n <= u32_max.
Proof.
  unfold N_of_key. destruct (parse_u32 s) as [m|] eqn:E; [|discriminate].
  destruct (text_eqb (dec_N m) s) eqn:T; [|discriminate]. intros H; inversion H; subst.
  split; [symmetry; now apply text_eqb_eq|].
  apply parse_u32_ok_iff in E as (ds & _ & _ & _ & _ & Hn). exact Hn.
Qed.

(* ---------- maps ---------- *)

Section Maps.
  Context {K X : Type} (ek : K -> text) (dk : text -> option K) (ex : X -> json) (dx : json -> option X).
  Variables (PK : K -> Prop) (PX : X -> Prop).
  Hypothesis dk_ek : forall k, PK k -> dk (ek k) = Some k.
  Hypothesis dx_ex : forall x, PX x -> dx (ex x) = Some x.

  Lemma decode_encode_entries m :
    Forall (fun kx => PK (fst kx) /\ PX (snd kx)) m ->
    decode_entries dk dx (encode_entries ek ex m) = Some m.
  Proof.
    intros Hm. unfold encode_entries, decode_entries. apply map_opt_map.
    intros [k x] Hin. rewrite Forall_forall in Hm. destruct (Hm _ Hin) as [Hk Hx]. cbn [fst snd] in *.
    unfold decode_entry. cbn [fst snd]. now rewrite dk_ek, dx_ex.
  Qed.
End Maps.

(* ---------- provider ---------- *)

Section Provider.
  Context {VS : Type} (enc_vs : VS -> json) (dec_vs : json -> option VS).
  Variable PVS : VS -> Prop.
  Hypothesis dec_enc_vs : forall s, PVS s -> dec_vs (enc_vs s) = Some s.

  Definition pkg_ok (p : N) : Prop := p <= u32_max.
  Definition depmap_ok (m : @depmap VS) : Prop := Forall (fun qs => pkg_ok (fst qs) /\ PVS (snd qs)) m.
  Definition inner_ok (l : list (Z * @depmap VS)) : Prop := Forall (fun vd => Z_u32 (fst vd) /\ depmap_ok (snd vd)) l.
  Definition provider_ok (p : @provider VS) : Prop := Forall (fun pl => pkg_ok (fst pl) /\ inner_ok (snd pl)) p.

  Lemma decode_encode_depmap m : depmap_ok m -> decode_depmap dec_vs (encode_depmap enc_vs m) = Some m.
  Proof. apply decode_encode_entries; [exact N_of_key_of_N|exact dec_enc_vs]. Qed.

  Lemma decode_encode_inner l : inner_ok l -> decode_inner dec_vs (encode_inner enc_vs l) = Some l.
  Proof. apply decode_encode_entries; [exact Z_of_key_of_Z|exact decode_encode_depmap]. Qed.

  Lemma decode_encode_provider p : provider_ok p -> decode_provider dec_vs (encode_provider enc_vs p) = Some p.
  Proof. apply decode_encode_entries; [exact N_of_key_of_N|exact decode_encode_inner]. Qed.

  (* providers reachable through add_dependencies with u32 packages / versions satisfy [provider_ok] *)
  Definition deps_ok (d : list (pkg * VS)) : Prop := Forall (fun qs => pkg_ok (fst qs) /\ PVS (snd qs)) d.
  Definition op_ok (o : @op VS) : Prop := pkg_ok (fst (fst o)) /\ Z_u32 (snd (fst o)) /\ deps_ok (snd o).

  Lemma dm_insert_ok q s m : pkg_ok q -> PVS s -> depmap_ok m -> depmap_ok (dm_insert q s m).
  Proof.
    intros Hq Hs. induction m as [|[q' s'] r IH]; intros Hm; cbn [dm_insert].
    - constructor; [now split|constructor].
    - inversion Hm as [|? ? Hh Hr]; subst. destruct (N.eqb q q').
      + constructor; [now split|exact Hr].
      + constructor; [exact Hh|now apply IH].
  Qed.

  Lemma collect_ok d : deps_ok d -> depmap_ok (collect d).
  Proof.
    unfold collect. assert (G : forall acc, depmap_ok acc -> deps_ok d ->
      depmap_ok (fold_left (fun m qs => dm_insert (fst qs) (snd qs) m) d acc)).
    { induction d as [|[q s] r IH]; intros acc Ha Hd; cbn [fold_left]; [exact Ha|].
      inversion Hd as [|? ? [Hq Hs] Hr]; subst. apply IH; [|exact Hr]. now apply dm_insert_ok. }
    intros Hd. apply G; [constructor|exact Hd].
  Qed.

  Lemma inner_set_ok v d l : Z_u32 v -> depmap_ok d -> inner_ok l -> inner_ok (inner_set v d l).
  Proof.
    intros Hv Hd. induction l as [|[w d'] r IH]; intros Hl; cbn [inner_set].
    - constructor; [now split|constructor].
    - inversion Hl as [|? ? Hh Hr]; subst. destruct (Z.compare v w).
      + constructor; [now split|exact Hr].
      + constructor; [now split|exact Hl].
      + constructor; [exact Hh|now apply IH].
  Qed.

  Lemma outer_get_ok p prov l : provider_ok prov -> outer_get p prov = Some l -> inner_ok l.
  Proof.
    induction prov as [|[p' l'] r IH]; intros Hp; cbn [outer_get]; [discriminate|].
    inversion Hp as [|? ? [_ Hl] Hr]; subst. destruct (N.eqb p p').
    - intros E; inversion E; subst. exact Hl.
    - now apply IH.
  Qed.

  Lemma outer_set_ok p l prov : pkg_ok p -> inner_ok l -> provider_ok prov -> provider_ok (outer_set p l prov).
  Proof.
    intros Hp Hl. induction prov as [|[p' l'] r IH]; intros Hprov; cbn [outer_set].
    - constructor; [now split|constructor].
    - inversion Hprov as [|? ? Hh Hr]; subst. destruct (N.eqb p p').
      + constructor; [now split|exact Hr].
      + constructor; [exact Hh|now apply IH].
  Qed.

  Lemma add_dependencies_ok prov p v d :
    provider_ok prov -> pkg_ok p -> Z_u32 v -> deps_ok d -> provider_ok (add_dependencies prov p v d).
  Proof.
    intros Hprov Hp Hv Hd. unfold add_dependencies. apply outer_set_ok; [assumption| |assumption].
    apply inner_set_ok; [assumption|now apply collect_ok|].
    destruct (outer_get p prov) eqn:E; [now apply (outer_get_ok p prov)|constructor].
  Qed.

  Lemma run_ok ops : Forall op_ok ops -> provider_ok (run ops).
  Proof.
    unfold run. assert (G : forall acc, provider_ok acc -> Forall op_ok ops ->
      provider_ok (fold_left (fun prov o => add_dependencies prov (fst (fst o)) (snd (fst o)) (snd o)) ops acc)).
    { induction ops as [|o r IH]; intros acc Ha Ho; cbn [fold_left]; [exact Ha|].
      inversion Ho as [|? ? (Hp & Hv & Hd) Hr]; subst. apply IH; [|exact Hr]. now apply add_dependencies_ok. }
    intros Ho. apply G; [constructor|exact Ho].
  Qed.

  Lemma decode_encode_run ops :
    Forall op_ok ops -> decode_provider dec_vs (encode_provider enc_vs (run ops)) = Some (run ops).
  Proof. intros Ho. apply decode_encode_provider. now apply run_ok. Qed.
End Provider.

(* the u32 instance *)
Definition range_u32 (r : RZ.range) : Prop := range_all Z_u32 r.

Lemma decode_encode_range_u32 r : range_u32 r -> decode_range_u32 (encode_range_u32 r) = Some r.
Proof. apply decode_encode_range. exact dec_enc_u32. Qed.

Lemma range_all_True {V : Type} (r : list (bound V * bound V)) : range_all (fun _ => True) r.
Proof. unfold range_all. apply Forall_forall. intros [[?|?|] [?|?|]] _; cbn; auto. Qed.

Lemma decode_encode_range_total {V : Type} (enc_v : V -> json) (dec_v : json -> option V) :
  (forall v, dec_v (enc_v v) = Some v) ->
  forall r, decode_range dec_v (encode_range enc_v r) = Some r.
Proof.
  intros H r. apply (decode_encode_range enc_v dec_v (fun _ => True)); [auto|apply range_all_True].
Qed.

Lemma decode_encode_range_sv r : range_all SV_u32 r -> decode_range_sv (encode_range_sv r) = Some r.
Proof. apply decode_encode_range. exact dec_enc_sv. Qed.

(* the two legacy shapes, and the list form *)
Lemma legacy_shapes {V : Type} (enc_v : V -> json) (dec_v : json -> option V) (P : V -> Prop) :
  (forall v, P v -> dec_v (enc_v v) = Some v) -> version_json_not_a_bound enc_v dec_v ->
  (forall a b, P a -> P b -> decode_range dec_v (JArr [JArr [enc_v a; enc_v b]]) = Some [(Incl a, Excl b)])
  /\ (forall a, P a -> decode_range dec_v (JArr [JArr [enc_v a; JNull]]) = Some [(Incl a, Unb)])
  /\ (forall l, Forall (fun ab => P (fst ab) /\ match snd ab with Some b => P b | None => True end) l ->
        decode_range dec_v (encode_legacy enc_v l) = Some (map legacy_segment l)).
Proof.
  intros Hd Hn. split; [|split].
  - intros a b Ha Hb. apply (decode_legacy_range enc_v dec_v P Hd Hn [(a, Some b)]). constructor; [now split|constructor].
  - intros a Ha. apply (decode_legacy_range enc_v dec_v P Hd Hn [(a, None)]). constructor; [now split|constructor].
  - exact (decode_legacy_range enc_v dec_v P Hd Hn).
Qed.

Lemma legacy_u32_sets a b v :
  Z_u32 a -> Z_u32 b ->
  (exists r, decode_range_u32 (JArr [JArr [JNum a; JNum b]]) = Some r /\ RZ.contains r v = ((a <=? v) && (v <? b))%Z)
  /\ (exists r, decode_range_u32 (JArr [JArr [JNum a; JNull]]) = Some r /\ RZ.contains r v = (a <=? v)%Z).
Proof.
  intros Ha Hb.
  destruct (legacy_shapes enc_num dec_u32 Z_u32 dec_enc_u32 (num_not_a_bound dec_u32)) as (H1 & H2 & _).
  split.
  - exists [(Incl a, Excl b)]. split; [exact (H1 a b Ha Hb)|apply contains_between].
  - exists [(Incl a, Unb)]. split; [exact (H2 a Ha)|apply contains_from].
Qed.

Lemma key_roundtrip_and_canonical :
  (forall n, n <= u32_max -> N_of_key (key_of_N n) = Some n)
  /\ (forall z, Z_u32 z -> Z_of_key (key_of_Z z) = Some z)
  /\ (forall s n, N_of_key s = Some n -> s = key_of_N n /\ n <= u32_max).
Proof. split; [exact N_of_key_of_N|split; [exact Z_of_key_of_Z|exact N_of_key_sound]]. Qed.

Lemma after_roundtrip {VS A : Type} (enc_vs : VS -> json) (dec_vs : json -> option VS) (PVS : VS -> Prop) :
  (forall s, PVS s -> dec_vs (enc_vs s) = Some s) ->
  forall (f : @provider VS -> A) p p',
    provider_ok PVS p -> decode_provider dec_vs (encode_provider enc_vs p) = Some p' -> f p' = f p.
Proof.
  intros H f p p' Hp E. rewrite (decode_encode_provider enc_vs dec_vs PVS H p Hp) in E. now inversion E.
Qed.
