(* C05 (model side), termination, part 4: the potential.
   [phi L asg] = sum over the packages of the registry of the rank of their term restricted to the decision
   levels <= L (unassigned packages weigh [Wt]); the digit of level L is [S (Mx - phi L)]; [Phi] reads the
   digits of the existing levels as a number in base [Mx + 2], most significant level 0 first.  [Phi] is
   bounded by [Bound] and strictly increases with a derivation at the current level ([Phi_deriv]), with a
   backtrack followed by a derivation ([Phi_backtrack_deriv]) and with a decision ([Phi_decision]). *)
From Coq Require Import List NArith ZArith Bool Lia PeanoNat.
From PG Require Import Model.VS Model.Term Model.Solver Proofs.VSLaws Proofs.TermProofs
  Proofs.AssocProofs Proofs.SolverSem Proofs.SolverStore Proofs.SolverQueue Proofs.SolverSound1
  Proofs.SolverReach1 Proofs.SolverNoPanic1 Proofs.SolverTerm1.
Import ListNotations.

Section Sums.
  Context {A : Type}.
  Lemma sum_ext (f g : A -> nat) l : (forall x, In x l -> f x = g x) -> list_sum (map f l) = list_sum (map g l).
  Proof. intros H. f_equal. now apply map_ext_in. Qed.
  Lemma sum_le (f g : A -> nat) l : (forall x, In x l -> f x <= g x) -> list_sum (map f l) <= list_sum (map g l).
  Proof.
    unfold list_sum. induction l as [|a l IH]; intros H; cbn [map fold_right]; [lia|]. pose proof (H a (or_introl eq_refl)).
    specialize (IH (fun x Hx => H x (or_intror Hx))). lia.
  Qed.
  Lemma sum_lt (f g : A -> nat) l q :
    (forall x, In x l -> f x <= g x) -> In q l -> f q < g q -> list_sum (map f l) < list_sum (map g l).
  Proof.
    induction l as [|a l IH]; intros H Hin Hlt; [destruct Hin|].
    pose proof (H a (or_introl eq_refl)) as Ha.
    pose proof (sum_le f g l (fun x Hx => H x (or_intror Hx))) as Hl. unfold list_sum in *. cbn [map fold_right].
    destruct Hin as [->|Hin]; [lia|]. specialize (IH (fun x Hx => H x (or_intror Hx)) Hin Hlt). lia.
  Qed.
  Lemma sum_bound (f : A -> nat) W l : (forall x, f x <= W) -> list_sum (map f l) <= length l * W.
  Proof. intros H. unfold list_sum. induction l as [|a l IH]; cbn [map fold_right length]; [lia|]. specialize (H a). lia. Qed.
End Sums.

Section Term4.
  Context {VS Vr : Type} (O : VSOps VS Vr) (L : VSLawful O) (R : Ranked O L).
  Variable pkgs : list pkg.

  Notation tm := (term VS).
  Notation pa := (@pa VS Vr).
  Notation dated := (@dated VS).
  Notation psol := (@psol VS Vr).
  Notation twf := (twf O L).
  Notation tleU := (tleU O L).
  Notation talg := (talg O L R).
  Notation orank := (orank O L R).
  Notation ps_chain := (ps_chain O).

  Definition Pn : nat := length pkgs.
  Definition Mx : nat := Pn * Wt O L R.
  Definition Bs : nat := Mx + 2.
  Definition Bound : nat := Bs ^ S Pn.

  Definition phi (Lv : nat) (asg : list (pkg * pa)) : nat :=
    list_sum (map (fun x => orank (lookup_at Lv asg x)) pkgs).
  Definition dig (asg : list (pkg * pa)) (Lv : nat) : nat := S (Mx - phi Lv asg).
  Definition Phi (p : psol) : nat := PhiE Bs Pn (dig (assignments p)) (level p).

  Lemma phi_le Lv asg : phi Lv asg <= Mx.
  Proof. unfold phi, Mx, Pn. apply sum_bound. intros x. apply orank_le. Qed.

  Lemma dig_lt asg Lv : dig asg Lv < Bs.
  Proof. unfold dig, Bs. lia. Qed.

  Lemma Bs_pos : 1 <= Bs.
  Proof. unfold Bs. lia. Qed.

  Lemma Phi_lt_Bound p : Phi p < Bound.
  Proof. unfold Phi, Bound. apply PhiE_bound; [exact Bs_pos|]. intros l. apply dig_lt. Qed.

  Lemma phi_ext Lv asg asg' :
    (forall x, In x pkgs -> lookup_at Lv asg' x = lookup_at Lv asg x) -> phi Lv asg' = phi Lv asg.
  Proof. intros H. unfold phi. apply sum_ext. intros x Hx. now rewrite H. Qed.

  Lemma phi_strict Lv asg asg' q :
    In q pkgs -> (forall x, x <> q -> lookup_at Lv asg' x = lookup_at Lv asg x) ->
    orank (lookup_at Lv asg' q) < orank (lookup_at Lv asg q) -> phi Lv asg' < phi Lv asg.
  Proof.
    intros Hq Hoth Hlt. unfold phi. apply (sum_lt _ _ pkgs q); [|exact Hq|exact Hlt].
    intros x _. destruct (N.eq_dec x q) as [->|Hne]; [lia|]. rewrite Hoth by exact Hne. lia.
  Qed.

  (* the digit of the last kept level grows, the earlier ones are unchanged *)
  Lemma Phi_lt_gen (p p2 : psol) :
    level p2 <= level p -> level p <= Pn ->
    (forall l, l < level p2 -> phi l (assignments p2) = phi l (assignments p)) ->
    phi (level p2) (assignments p2) < phi (level p2) (assignments p) -> Phi p < Phi p2.
  Proof.
    intros H1 H2 Heq Hlt. unfold Phi. apply PhiE_lt_a; try assumption; [exact Bs_pos| | |].
    - intros l Hl. unfold dig. now rewrite Heq.
    - unfold dig. pose proof (phi_le (level p2) (assignments p)). lia.
    - intros l. apply dig_lt.
  Qed.

  Lemma Phi_lt_push (p p2 : psol) :
    level p2 = S (level p) -> S (level p) <= Pn ->
    (forall l, l <= level p -> phi l (assignments p2) = phi l (assignments p)) -> Phi p < Phi p2.
  Proof.
    intros H1 H2 Heq. unfold Phi. rewrite H1. apply PhiE_lt_b; [exact Bs_pos|exact H2| |].
    - intros l Hl. unfold dig. now rewrite Heq.
    - unfold dig. lia.
  Qed.

  (* ---------------------------------------------------------------- how the steps act on [lookup_at] *)
  Lemma lookup_at_deriv (p : psol) q cause cts p' Lv x :
    add_derivation O p q cause cts = Good p' -> x <> q \/ Lv < level p ->
    lookup_at Lv (assignments p') x = lookup_at Lv (assignments p) x.
  Proof.
    intros Ed Hc. destruct (add_derivation_get O _ _ _ _ _ Ed) as (ct & a' & _ & _ & _ & Hget & Hcase).
    unfold lookup_at. rewrite Hget. destruct (N.eqb_spec x q) as [->|Hne]; [|reflexivity].
    destruct Hc as [Hc|Hc]; [congruence|].
    destruct Hcase as [(a & t & Hg & Ea & -> & _)|(Hg & -> & _)]; rewrite Hg.
    - unfold term_at. cbn [deriv_upd ai derivs]. rewrite Ea, der_at_snoc. cbn [d_level].
      apply Nat.ltb_lt in Hc. now rewrite Hc.
    - unfold term_at. cbn [deriv_new ai derivs]. change [?d] with ([] ++ [d]). rewrite der_at_snoc. cbn [d_level].
      apply Nat.ltb_lt in Hc. now rewrite Hc.
  Qed.

  Lemma lookup_at_deriv_q (p : psol) q cause cts p' :
    add_derivation O p q cause cts = Good p' ->
    exists ct, get q cts = Some ct
      /\ lookup_at (level p) (assignments p') q =
         Some (match term_for p q with Some t => t_intersection O t (t_negate ct) | None => t_negate ct end).
  Proof.
    intros Ed. destruct (add_derivation_get O _ _ _ _ _ Ed) as (ct & a' & Hct & _ & _ & Hget & Hcase).
    exists ct. split; [exact Hct|]. unfold lookup_at, term_for. rewrite Hget, N.eqb_refl.
    destruct Hcase as [(a & t & Hg & Ea & -> & _)|(Hg & -> & _)]; rewrite Hg; cbn [option_map].
    - unfold term_at. cbn [deriv_upd ai derivs]. rewrite Ea, der_at_snoc. cbn [d_level d_accum ai_term].
      now rewrite Nat.ltb_irrefl.
    - unfold term_at. cbn [deriv_new ai derivs]. change [?d] with ([] ++ [d]). rewrite der_at_snoc. cbn [d_level d_accum].
      now rewrite Nat.ltb_irrefl.
  Qed.

  Lemma lookup_at_backtrack (p : psol) Lv p' l x :
    layout p -> ps_backtrack p Lv = Good p' -> l <= Lv ->
    lookup_at l (assignments p') x = lookup_at l (assignments p) x.
  Proof.
    intros Hl Ep Hle. destruct (ps_backtrack_get _ _ _ Hl Ep x) as (oa & Hoa & Hb). unfold lookup_at. rewrite Hoa.
    destruct (get x (assignments p)) as [a|] eqn:Hg; [|now rewrite Hb].
    pose proof (backtrack_pa_term_at Lv l (level p) a oa (layout_get_ok _ _ _ Hl Hg) Hle Hb) as H.
    destruct oa as [a'|]; [exact H|now rewrite H].
  Qed.

  Lemma lookup_at_decision (p : psol) q v p' l x :
    layout p -> add_decision O p q v = Good p' -> l <= level p ->
    lookup_at l (assignments p') x = lookup_at l (assignments p) x.
  Proof.
    intros Hl Ed Hle. destruct (add_decision_get O _ _ _ _ Hl Ed) as (a & t & Hg & Ea & _ & _ & _ & Hget).
    unfold lookup_at. rewrite Hget. destruct (N.eqb_spec x q) as [->|Hne]; [|reflexivity]. rewrite Hg.
    unfold term_at. cbn [decide_upd ai highest derivs]. rewrite Ea.
    destruct (Nat.leb_spec (S (level p)) l); [lia|reflexivity].
  Qed.

  (* ---------------------------------------------------------------- the three progress steps *)
  Definition new_term (p : psol) (q : pkg) (ct : tm) : tm :=
    match term_for p q with Some t => t_intersection O t (t_negate ct) | None => t_negate ct end.

  (* the hypothesis of progress of a derivation: the new term of [q] has a smaller rank than the old one *)
  Definition shrinks (p : psol) (q : pkg) (cts : list (pkg * tm)) : Prop :=
    forall ct, get q cts = Some ct -> orank (Some (new_term p q ct)) < orank (term_for p q).

  Lemma phi_deriv_eq (p : psol) q cause cts p' l :
    add_derivation O p q cause cts = Good p' -> l < level p -> phi l (assignments p') = phi l (assignments p).
  Proof. intros Ed Hl. apply phi_ext. intros x _. eapply lookup_at_deriv; eauto. Qed.

  Lemma phi_deriv_lt (p : psol) q cause cts p' :
    layout p -> ps_chain (assignments p) -> In q pkgs -> add_derivation O p q cause cts = Good p' ->
    shrinks p q cts -> phi (level p) (assignments p') < phi (level p) (assignments p).
  Proof.
    intros Hl Hc Hq Ed Hs. apply (phi_strict _ _ _ q Hq).
    - intros x Hne. eapply lookup_at_deriv; eauto.
    - destruct (lookup_at_deriv_q p q cause cts p' Ed) as (ct & Hct & ->).
      rewrite (lookup_at_level O p q Hl Hc). exact (Hs ct Hct).
  Qed.

  Lemma add_derivation_level (p : psol) q cause cts p' : add_derivation O p q cause cts = Good p' -> level p' = level p.
  Proof. intros Ed. destruct (add_derivation_get O _ _ _ _ _ Ed) as (_ & _ & _ & E & _). exact E. Qed.

  Lemma Phi_deriv (p : psol) q cause cts p' :
    layout p -> ps_chain (assignments p) -> level p <= Pn -> In q pkgs ->
    add_derivation O p q cause cts = Good p' -> shrinks p q cts -> Phi p < Phi p'.
  Proof.
    intros Hl Hc HP Hq Ed Hs. pose proof (add_derivation_level _ _ _ _ _ Ed) as Elv.
    apply Phi_lt_gen; rewrite ?Elv; try lia.
    - intros l Hlt. eapply phi_deriv_eq; eauto.
    - eapply phi_deriv_lt; eauto.
  Qed.

  Lemma phi_backtrack_eq (p : psol) Lv p' l :
    layout p -> ps_backtrack p Lv = Good p' -> l <= Lv -> phi l (assignments p') = phi l (assignments p).
  Proof. intros Hl Ep Hle. apply phi_ext. intros x _. eapply lookup_at_backtrack; eauto. Qed.

  Lemma Phi_backtrack_deriv (p : psol) Lv p1 q cause cts p2 :
    layout p -> Lv <= level p -> level p <= Pn -> ps_backtrack p Lv = Good p1 ->
    layout p1 -> ps_chain (assignments p1) -> In q pkgs ->
    add_derivation O p1 q cause cts = Good p2 -> shrinks p1 q cts -> Phi p < Phi p2.
  Proof.
    intros Hl HLv HP Ep Hl1 Hc1 Hq Ed Hs.
    destruct (ps_backtrack_asg _ _ _ Ep) as (Elv1 & _ & _). pose proof (add_derivation_level _ _ _ _ _ Ed) as Elv2.
    apply Phi_lt_gen; rewrite ?Elv2, ?Elv1; try lia.
    - intros l Hlt. rewrite (phi_deriv_eq p1 q cause cts p2 l Ed) by lia. eapply phi_backtrack_eq; eauto. lia.
    - pose proof (phi_deriv_lt p1 q cause cts p2 Hl1 Hc1 Hq Ed Hs) as H. rewrite Elv1 in H.
      rewrite <- (phi_backtrack_eq p Lv p1 Lv Hl Ep (le_n _)). exact H.
  Qed.

  Lemma Phi_decision (p : psol) q v p' :
    layout p -> S (level p) <= Pn -> add_decision O p q v = Good p' -> Phi p < Phi p'.
  Proof.
    intros Hl HP Ed. destruct (add_decision_get O _ _ _ _ Hl Ed) as (_ & _ & _ & _ & _ & Elv & _).
    apply Phi_lt_push; [exact Elv|exact HP|]. intros l Hle. apply phi_ext. intros x _. eapply lookup_at_decision; eauto.
  Qed.

  Lemma Phi_same (p p' : psol) : assignments p' = assignments p -> level p' = level p -> Phi p' = Phi p.
  Proof. intros E1 E2. unfold Phi. now rewrite E1, E2. Qed.

  (* ---------------------------------------------------------------- where [shrinks] comes from *)
  (* the scan: the incompatibility is almost satisfied, the term of [q] is inconclusive or missing *)
  Lemma shrinks_almost (p : psol) (ts : list (pkg * tm)) q :
    NoDup (keys ts) -> (forall x t, In (x, t) ts -> talg t) -> (forall t, term_for p q = Some t -> talg t) ->
    relation O ts (term_for p) = RAlmost q -> shrinks p q ts.
  Proof.
    intros Nd Hts Hq Hrel ct Hct. destruct (relation_almost_inv O _ _ _ Hrel) as (t & Hin & Hcase).
    rewrite (In_get _ _ _ Nd Hin) in Hct. injection Hct as ->. unfold new_term.
    destruct Hcase as [->|(tx & Etx & Hinc)]; [apply orank_some_lt|].
    pose proof (Hq tx Etx) as Htx. rewrite Etx. pose proof (Hts q ct Hin) as Hc.
    destruct (deriv_strict_inconclusive O L R tx ct Htx Hc Hinc) as (Ht' & _ & _ & Hlt).
    rewrite !orank_some by assumption. exact Hlt.
  Qed.

  (* after conflict resolution: the term of [q] is not disjoint from the term of the root cause, or missing *)
  Lemma shrinks_not_disjoint (p : psol) (ts : list (pkg * tm)) q :
    (forall ct, get q ts = Some ct -> talg ct) -> (forall t, term_for p q = Some t -> talg t) ->
    (forall ct t, get q ts = Some ct -> term_for p q = Some t -> t_is_disjoint O ct t = false) ->
    shrinks p q ts.
  Proof.
    intros Hts Hq Hd ct Hct. unfold new_term. destruct (term_for p q) as [t|] eqn:Et; [|apply orank_some_lt].
    destruct (deriv_strict O L R t ct (Hq t eq_refl) (Hts ct Hct) (Hd ct t Hct eq_refl)) as (Ht' & _ & _ & Hlt).
    rewrite !orank_some by (try assumption; now apply Hq). exact Hlt.
  Qed.
End Term4.
