(* C05 (model side), termination: the theorems of Proofs/SolverTerm.v apply to the two concrete version sets.
   - bitset: every hypothesis holds for the registry and the trace of SolverSoundExample.v;
   - Range<V> for any ordered V (functor [RangeTermP]): atomic singletons and the ranked subalgebra of the
     ranges whose bounds lie in a finite list [bs]; instance Range<Z> on run 3 of SolverReachExample.v
     (a decision backtracked after a NoVersions conflict). *)
From Coq Require Import Orders OrdersFacts List Bool NArith ZArith Lia.
From PG Require Import Model.Text Model.VS Model.Term Model.Range Model.Solver Model.Registry Model.Instances
  Proofs.VSLaws Proofs.BitsetLawful Proofs.RangeVS Proofs.SolverSem Proofs.SolverSound Proofs.SolverSoundExample
  Proofs.SolverExamples Proofs.SolverReachExample Proofs.SolverNoPanic1 Proofs.SolverNoPanic Proofs.SolverNoPanicInst
  Proofs.SolverTerm1 Proofs.SolverTerm4 Proofs.SolverTerm Proofs.SolverTermInst Proofs.SolverTermRange.
Import ListNotations.
Local Open Scope nat_scope.

(* ---------------------------------------------------------------- bitset *)
Definition pkgs1 : list pkg := [0%N; 1%N].

Lemma reg1_pk_deps p v ds q s : reg_deps SolverSoundExample.reg1 p v = Some ds -> In (q, s) ds -> In q pkgs1.
Proof.
  cbn. destruct (N.eqb p 0); intros E; injection E as <-; [|intros []]. intros [E|[]]. injection E as <- _. cbn. auto.
Qed.

Lemma reg1_alg_deps p v ds q s : reg_deps SolverSoundExample.reg1 p v = Some ds -> In (q, s) ds -> alg bitset_ranked s.
Proof. intros H Hin. exact (SolverSoundExample.reg1_wf p v ds q s H Hin). Qed.

(* for EVERY amount of fuel above the bound computed from the registry, the run of SolverSoundExample.v does not
   run out of fuel and consumes a bounded number of provider events (it consumes 9) *)
Example bitset_terminates fuel o st log cnt :
  Fuel1 bitset_vs bitset_lawful bitset_ranked pkgs1 <= fuel ->
  resolve bitset_vs v8_eqb fuel 0%N V1 SolverSoundExample.tr1 = (o, st, log, cnt) ->
  o <> OOutOfFuel /\ cnt <= Events0 bitset_vs bitset_lawful bitset_ranked pkgs1.
Proof.
  intros Hf E.
  pose proof (fun a b => proj1 (v8_eqb_eq a b)) as Heq.
  split.
  - exact (resolve_no_fuel_exhaustion_uniform bitset_vs bitset_lawful v8_eqb SolverSoundExample.reg1 0%N V1 bitset_singleton_atomic SolverSoundExample.reg1_wf Heq
             bitset_ranked pkgs1 (or_introl eq_refl) reg1_pk_deps reg1_alg_deps (fun p v _ => bitset_alg_all_singletons v)
             (bitset_alg_all_singletons V1) fuel SolverSoundExample.tr1 o st log cnt SolverSoundExample.tr1_wb Hf E).
  - exact (resolve_events_bounded bitset_vs bitset_lawful v8_eqb SolverSoundExample.reg1 0%N V1 bitset_singleton_atomic SolverSoundExample.reg1_wf Heq
             bitset_ranked pkgs1 (or_introl eq_refl) reg1_pk_deps reg1_alg_deps (fun p v _ => bitset_alg_all_singletons v)
             (bitset_alg_all_singletons V1) fuel SolverSoundExample.tr1 o st log cnt SolverSoundExample.tr1_wb E).
Qed.

(* the bounds compute: 2 packages, rank bound 8 *)
Example bitset_bound : N.of_nat (Bound bitset_vs bitset_lawful bitset_ranked pkgs1) = 54872%N.
Proof. vm_compute. reflexivity. Qed.

(* ---------------------------------------------------------------- Range<V> *)
Module RangeTermP (V : UsualOrderedTypeFull).
  Module Export RR := RangeRankedP V.

  Lemma range_singleton_atomic : singleton_atomic range_vs range_lawful.
  Proof.
    intros v u H. change (memb (singleton v) u = true) in H. change (u = P v At).
    apply memb_den in H. unfold singleton in H. rewrite single_seg_den in H.
    cbn [lo_of hi_of] in H. destruct H. porder.
  Qed.

  Section Inst.
    Variables (bs : list V.t) (veqb : V.t -> V.t -> bool) (reg : @registry range V.t) (r : pkg) (rv : V.t).
    Variable pkgs : list pkg.
    Hypothesis Hregwf : reg_wf range_vs range_lawful reg.
    Hypothesis veqb_eq : forall a b, veqb a b = true -> a = b.
    Hypothesis Hpk_root : In r pkgs.
    Hypothesis Hpk_deps : forall p v ds q s, reg_deps reg p v = Some ds -> In (q, s) ds -> In q pkgs.
    (* the finite list [bs] contains every bound of a dependency set and every version of the registry *)
    Hypothesis Hb_deps : forall p v ds q s, reg_deps reg p v = Some ds -> In (q, s) ds -> range_in bs s.
    Hypothesis Hb_ver : forall p v, In v (reg_versions reg p) -> In v bs.
    Hypothesis Hb_root : In rv bs.

    Theorem range_resolve_terminates fuel (tr : list (@event range V.t)) o st log cnt :
      WellBehaved range_vs reg tr -> choose_contained range_vs tr -> no_error_answers tr ->
      Fuel1 range_vs range_lawful (range_ranked bs) pkgs <= fuel ->
      resolve range_vs veqb fuel r rv tr = (o, st, log, cnt) ->
      ((exists sol, o = OSolution sol) \/ (exists t, o = ONoSolution t)
       \/ (exists k w, o = OMismatch k w) \/ (exists k p, o = OPickNotMax k p))
      /\ cnt <= Events0 range_vs range_lawful (range_ranked bs) pkgs.
    Proof.
      apply (resolve_terminates range_vs range_lawful veqb reg r rv range_singleton_atomic Hregwf veqb_eq
               (range_ranked bs) pkgs Hpk_root Hpk_deps).
      - intros p v ds q s H Hin. apply range_ranked_alg. split; [exact (Hregwf p v ds q s H Hin)|exact (Hb_deps p v ds q s H Hin)].
      - intros p v Hin. apply range_ranked_singleton. exact (Hb_ver p v Hin).
      - apply range_ranked_singleton. exact Hb_root.
    Qed.
  End Inst.
End RangeTermP.

Module ZTerm := RangeTermP ZV.

(* ---- Range<Z>, run 3 of SolverReachExample.v ---- *)
Local Open Scope Z_scope.
Definition pkgs3 : list pkg := [0%N; 1%N; 2%N; 3%N].
Definition bs3 : list Z := [1; 2].

Ltac split_reg H :=
  cbn in H; repeat match type of H with
                   | match ?x with _ => _ end = Some _ => destruct x; try discriminate
                   end.

Lemma reg3_pk_deps p v ds q s : reg_deps reg3 p v = Some ds -> In (q, s) ds -> In q pkgs3.
Proof.
  intros H Hin. split_reg H; injection H as <-; cbn in Hin; cbn; intuition congruence.
Qed.

Lemma reg3_b_deps p v ds q s : reg_deps reg3 p v = Some ds -> In (q, s) ds -> ZTerm.RR.range_in bs3 s.
Proof.
  intros H Hin. assert (Hs : s = RZ.full).
  { split_reg H; injection H as <-; cbn in Hin; intuition congruence. }
  subst s. exact (proj2 (ZTerm.RR.range_alg_full bs3)).
Qed.

Lemma reg3_b_ver p v : In v (reg_versions reg3 p) -> In v bs3.
Proof.
  intros H. cbn in H. repeat match type of H with
                             | In _ (match ?x with _ => _ end) => destruct x
                             end; cbn in H; cbn; intuition.
Qed.

Lemma reg3_wf' : reg_wf _ ZTerm.RR.RVi.range_lawful reg3.
Proof.
  intros p v ds q s H Hin. assert (Hs : s = RZ.full).
  { split_reg H; injection H as <-; cbn in Hin; intuition congruence. }
  subst s. exact (wf_full _ ZTerm.RR.RVi.range_lawful).
Qed.

Example z_run3_terminates fuel o st log cnt :
  (Fuel1 _ ZTerm.RR.RVi.range_lawful (ZTerm.RR.range_ranked bs3) pkgs3 <= fuel)%nat ->
  resolve zvs Z.eqb fuel 0%N 1 tr3 = (o, st, log, cnt) ->
  ((exists sol, o = OSolution sol) \/ (exists t, o = ONoSolution t)
   \/ (exists k w, o = OMismatch k w) \/ (exists k p, o = OPickNotMax k p))
  /\ (cnt <= Events0 _ ZTerm.RR.RVi.range_lawful (ZTerm.RR.range_ranked bs3) pkgs3)%nat.
Proof.
  intros Hf E.
  exact (ZTerm.range_resolve_terminates bs3 Z.eqb reg3 0%N 1 pkgs3 reg3_wf' zeqb_eq (or_introl eq_refl) reg3_pk_deps
           reg3_b_deps reg3_b_ver (or_introl eq_refl) fuel tr3 o st log cnt tr3_wb tr3_choose_contained tr3_no_error_answers Hf E).
Qed.

Print Assumptions bitset_terminates.
Print Assumptions ZTerm.range_resolve_terminates.
Print Assumptions z_run3_terminates.
