(* C13 end to end: a provider error aborts the generating model faithfully.

   [resolve_g] (Proofs/SolverGen.v) asks a typed provider and returns the result together with the history of
   calls.  Here the provider is ARBITRARY (no [serves] hypothesis: it may cancel, fail, or answer a version
   outside the offered set).  For every provider, fuel and root:
   - an error answer of should_cancel / choose_version / get_dependencies is the LAST call of the run and the
     outcome is the matching error variant (carrying, for get_dependencies, the queried package and version);
   - conversely an error outcome is explained by an error answer of that very callback, which is the last call;
   - a choose_version answer outside the offered set is refused: Failure, and no call is made after it.

   Two routes, both here:
   1. through the checker (the composition of C13 with the generating model): the generated trace is accepted by
      [resolve_h] (SolverGen), no mismatch is possible (SolverEndToEnd), so it is a [resolve] run (erasure,
      SolverDet) whose consumed prefix is the whole generated trace; the C13 lemmas of Proofs/SolverFaults.v
      ([resolve_error_answer_last], [resolve_error_answer_outcome]) conclude (first clause of the theorem);
   2. directly on [resolve_loop_g] by an invariant of the appended events ([good]); this needs no hypothesis on
      the equality tests at all ([resolve_g_error_aborts_direct]) and gives the converse clauses and the
      out-of-set clause without asking [vs_eqb] to reflect equality. *)
From Coq Require Import List NArith ZArith Bool Lia PeanoNat.
From PG Require Import Model.VS Model.Term Model.Heap Model.Solver Proofs.SolverTrace Proofs.SolverDet
  Proofs.SolverGen Proofs.SolverFaults Proofs.SolverInject Proofs.SolverEndToEnd.
Import ListNotations.

Section FaultsEndToEnd.
  Context {VS Vr : Type} (O : VSOps VS Vr) (veqb : Vr -> Vr -> bool).
  Notation event := (@event VS Vr).
  Notation outcome := (@outcome VS Vr).
  Notation result := (@result VS Vr).
  Notation tprovider := (@tprovider VS Vr).

  (* ================================================================ the invariant of the appended events *)
  (* an answer after which the run goes on: not an error, and a chosen version is inside the offered set *)
  Definition benign (e : event) : Prop :=
    is_err e = false /\ forall p s w, e = EvChoose p s (CSome w) -> vs_contains O s w = true.

  Definition not_err_outcome (o : outcome) : Prop :=
    o <> OErrCancel /\ o <> OErrChoose /\ forall p v, o <> OErrDeps p v.

  (* the five clauses of the theorem, about the outcome [o] and the calls [ext] made from some point on *)
  Definition good (o : outcome) (ext : list event) : Prop :=
    (forall pre e rest, ext = pre ++ e :: rest -> is_err e = true -> rest = [] /\ err_outcome e = Some o)
    /\ (o = OErrCancel -> exists pre, ext = pre ++ [EvCancel false])
    /\ (o = OErrChoose -> exists pre p s, ext = pre ++ [EvChoose p s CErr])
    /\ (forall p w, o = OErrDeps p w -> exists pre, ext = pre ++ [EvDeps p w DErr])
    /\ (forall pre p s w rest, ext = pre ++ EvChoose p s (CSome w) :: rest -> vs_contains O s w = false ->
          rest = [] /\ o = OFailure FIncompatibleVersion).

  Lemma single_split (e e' : event) pre rest : [e] = pre ++ e' :: rest -> pre = [] /\ e = e' /\ rest = [].
  Proof.
    destruct pre as [|a pre]; cbn [app]; intros H.
    - injection H as -> <-. auto.
    - injection H as _ H. exfalso. exact (app_cons_not_nil _ _ _ H).
  Qed.

  Lemma good_nil o : not_err_outcome o -> good o [].
  Proof.
    intros (H1 & H2 & H3). split; [|split; [|split; [|split]]].
    - intros pre e rest H. exfalso. exact (app_cons_not_nil _ _ _ H).
    - intros E. contradiction.
    - intros E. contradiction.
    - intros p w E. exfalso. exact (H3 p w E).
    - intros pre p s w rest H. exfalso. exact (app_cons_not_nil _ _ _ H).
  Qed.

  Lemma good_cons o e ext : benign e -> good o ext -> good o (e :: ext).
  Proof.
    intros [Hb1 Hb2] (H1 & H2 & H3 & H4 & H5). split; [|split; [|split; [|split]]].
    - intros [|a pre] e' rest H He; cbn [app] in H.
      + injection H as <- _. congruence.
      + injection H as _ H. exact (H1 pre e' rest H He).
    - intros E. destruct (H2 E) as (pre & ->). exists (e :: pre). reflexivity.
    - intros E. destruct (H3 E) as (pre & p & s & ->). exists (e :: pre), p, s. reflexivity.
    - intros p w E. destruct (H4 p w E) as (pre & ->). exists (e :: pre). reflexivity.
    - intros [|a pre] p s w rest H Hc; cbn [app] in H.
      + injection H as -> _. rewrite (Hb2 p s w eq_refl) in Hc. discriminate.
      + injection H as _ H. exact (H5 pre p s w rest H Hc).
  Qed.

  Lemma good_app o evs ext : Forall benign evs -> good o ext -> good o (evs ++ ext).
  Proof.
    induction 1 as [|e evs He _ IH]; intros Hg; cbn [app]; [exact Hg|]. apply good_cons; auto.
  Qed.

  (* the run stops on an error answer with the matching outcome *)
  Lemma good_last o (e : event) : is_err e = true -> err_outcome e = Some o -> good o [e].
  Proof.
    intros He Ho. split; [|split; [|split; [|split]]].
    - intros pre e' rest H He'. apply single_split in H as (-> & <- & ->). auto.
    - intros ->. exists []. destruct e as [[|]| |p s [v| |]|p v [d|m|]]; cbn in Ho; try discriminate. reflexivity.
    - intros ->. exists []. destruct e as [[|]| |p s [v| |]|p v [d|m|]]; cbn in Ho; try discriminate.
      exists p, s. reflexivity.
    - intros p0 w ->. exists []. destruct e as [[|]| |p s [v| |]|p v [d|m|]]; cbn in Ho; try discriminate.
      injection Ho as -> ->. reflexivity.
    - intros pre p s w rest H Hc. apply single_split in H as (-> & -> & ->). cbn in He. discriminate.
  Qed.

  (* the run stops on a version outside the offered set with Failure *)
  Lemma good_out_of_set p s w :
    vs_contains O s w = false -> good (OFailure FIncompatibleVersion) [EvChoose p s (CSome w)].
  Proof.
    intros Hc. split; [|split; [|split; [|split]]].
    - intros pre e' rest H He'. apply single_split in H as (-> & <- & ->). cbn in He'. discriminate.
    - discriminate.
    - discriminate.
    - discriminate.
    - intros pre p' s' w' rest H _. apply single_split in H as (_ & _ & ->). auto.
  Qed.

  (* [g] (result and final history of the generating model started on [hist]) extends [hist] by good events *)
  Definition G (hist : list event) (g : result * list event) : Prop :=
    exists ext, snd g = hist ++ ext /\ good (fst (fst (fst (fst g)))) ext.

  Lemma G_done hist (o : outcome) st log n : not_err_outcome o -> G hist ((o, st, log, n), hist).
  Proof. intros H. exists []. cbn [fst snd]. rewrite app_nil_r. split; [reflexivity|exact (good_nil o H)]. Qed.

  Lemma G_leaf hist (o : outcome) st log n e : good o [e] -> G hist ((o, st, log, n), hist ++ [e]).
  Proof. intros H. exists [e]. cbn [fst snd]. split; [reflexivity|exact H]. Qed.

  Lemma G_cons hist g e : benign e -> G (hist ++ [e]) g -> G hist g.
  Proof.
    intros Hb (ext & Hs & Hg). exists (e :: ext). rewrite <- app_assoc in Hs. cbn [app] in Hs.
    split; [exact Hs|exact (good_cons _ _ _ Hb Hg)].
  Qed.

  Lemma G_app hist g evs : Forall benign evs -> G (hist ++ evs) g -> G hist g.
  Proof.
    intros Hb (ext & Hs & Hg). exists (evs ++ ext). rewrite <- app_assoc in Hs.
    split; [exact Hs|exact (good_app _ _ _ Hb Hg)].
  Qed.

  Lemma gen_prioritize_benign (pg : tprovider) cands : forall q hist q' evs,
    gen_prioritize pg cands q hist = (q', evs) -> Forall benign evs.
  Proof.
    induction cands as [|[p s] cands IH]; intros q hist q' evs; cbn [gen_prioritize].
    - intros H. injection H as _ <-. constructor.
    - destruct (gen_prioritize pg cands _ _) as [q1 evs1] eqn:Eg. intros H. injection H as _ <-.
      constructor; [|exact (IH _ _ _ _ Eg)]. split; [reflexivity|]. intros p0 s0 w0 E. discriminate E.
  Qed.

  Ltac ne := repeat split; intros; discriminate.
  Ltac done := apply G_done; ne.
  Ltac ben := split; [reflexivity|intros ? ? ? E; discriminate E].

  Lemma resolve_loop_g_good (pg : tprovider) fuel : forall st next added hp hist log,
    G hist (resolve_loop_g O veqb pg fuel st next added hp hist log).
  Proof.
    induction fuel as [|fuel IH]; intros st next added hp hist log; cbn [resolve_loop_g]; [done|].
    destruct (p_cancel pg hist); cbn [negb].
    2:{ apply G_leaf, good_last; reflexivity. }
    apply (G_cons hist _ (EvCancel true)); [ben|].
    generalize (hist ++ [EvCancel true]). intros hist1.
    destruct (unit_propagation O (S fuel) st [next]) as [[st1|st1 id]|[|s0]]; try done.
    2:{ destruct (build_derivation_tree (store st1) id); done. }
    destruct (gen_prioritize pg (pick_candidates (ps st1)) (queue (ps st1)) hist1) as [q evs] eqn:Eg.
    apply (G_app hist1 _ evs (gen_prioritize_benign _ _ _ _ _ _ Eg)).
    generalize (hist1 ++ evs). intros hist2.
    destruct (queue_max q) as [mx|].
    2:{ unfold res_out. destruct (extract_solution (ps st1)); done. }
    destruct (heap_pop _) as [[[hpk hz] hp3]|]; [|done].
    destruct (get hpk q) as [[prio qs]|]; [|done].
    destruct (negb (Z.eqb prio mx)); [done|].
    destruct (term_for _ hpk) as [[cur|cur]|]; try done.
    destruct (p_choose pg hist2 hpk cur) as [v| |].
    - destruct (negb (t_contains O (Pos cur) v)) eqn:Et; cbn [t_contains] in Et.
      { apply G_leaf, good_out_of_set. apply negb_true_iff in Et. exact Et. }
      apply negb_false_iff in Et.
      apply (G_cons hist2 _ (EvChoose hpk cur (CSome v))).
      { split; [reflexivity|]. intros p s w E. injection E as _ <- <-. exact Et. }
      generalize (hist2 ++ [EvChoose hpk cur (CSome v)]). intros hist3.
      destruct (added_has veqb added hpk v).
      + unfold res_out_g. destruct (add_decision O _ hpk v); [apply IH|done].
      + destruct (p_deps pg hist3 hpk v) as [deps|m|].
        * apply (G_cons hist3 _ (EvDeps hpk v (DAvail deps))); [ben|].
          generalize (hist3 ++ [EvDeps hpk v (DAvail deps)]). intros hist4.
          unfold res_out_g.
          destruct (add_incompatibility_from_dependencies O _ hpk v deps) as [[st3 range]|]; [|done].
          destruct (add_version O (ps st3) hpk v range (store st3)); [apply IH|done].
        * apply (G_cons hist3 _ (EvDeps hpk v (DUnavail m))); [ben|].
          generalize (hist3 ++ [EvDeps hpk v (DUnavail m)]). intros hist4.
          unfold res_out_g.
          destruct (add_incompatibility O _ (custom_version O hpk v m)); [apply IH|done].
        * apply G_leaf, good_last; reflexivity.
    - apply (G_cons hist2 _ (EvChoose hpk cur CNone)); [ben|].
      generalize (hist2 ++ [EvChoose hpk cur CNone]). intros hist3.
      destruct (no_versions hpk (Pos cur)) as [inc|]; [|done].
      unfold res_out_g. destruct (add_incompatibility O _ inc); [apply IH|done].
    - apply G_leaf, good_last; reflexivity.
  Qed.

  (* ================================================================ route 2: all clauses, no hypothesis *)
  Theorem resolve_g_error_aborts_direct : forall (pg : tprovider) fuel r v res tr,
    resolve_g O veqb pg fuel r v = (res, tr) -> good (fst (fst (fst res))) tr.
  Proof.
    intros pg fuel r v res tr H. unfold resolve_g in H.
    destruct (resolve_loop_g_good pg fuel (state_init O r v) r [] [] [] []) as (ext & Hs & Hg).
    rewrite H in Hs, Hg. cbn [fst snd app] in Hs, Hg. subst ext. exact Hg.
  Qed.

  (* ================================================================ route 1: through the checker and C13 *)
  Lemma firstn_length_app {A} (l x : list A) : firstn (length l) (l ++ x) = l.
  Proof. induction l as [|a l IH]; cbn [length app firstn]; [reflexivity|now rewrite IH]. Qed.

  (* the generated run IS a run of the trace-consuming model [resolve] that consumes exactly the generated trace *)
  Lemma resolve_g_is_resolve_run :
    (forall v, veqb v v = true) -> (forall s, vs_eqb O s s = true) ->
    forall (pg : tprovider) fuel r v res tr, resolve_g O veqb pg fuel r v = (res, tr) ->
      exists la, resolve O veqb fuel r v (tr ++ la) = res /\ snd res = length tr /\ firstn (snd res) (tr ++ la) = tr.
  Proof.
    intros Hvrefl Hsrefl pg fuel r v res tr Hg.
    destruct (resolve_g_is_accepted_run O veqb Hsrefl Hvrefl pg fuel r v res tr Hg) as (_ & Hlen & la & _ & Hres & _).
    pose proof (resolve_g_no_mismatch O veqb pg fuel r v res tr) as Hnm.
    assert (Hn6 : forall k, fst (fst (fst (resolve_h O veqb fuel r v (tr ++ la)))) <> OMismatch k 6).
    { intros k. rewrite Hres. exact (Hnm k 6%N Hg). }
    pose proof (resolve_h_erasure O veqb fuel r v (tr ++ la) Hn6) as Her. rewrite Hres in Her.
    exists la. split; [symmetry; exact Her|]. split; [exact Hlen|]. rewrite Hlen. apply firstn_length_app.
  Qed.

  (* C13 ([resolve_error_answer_last], [resolve_error_answer_outcome]) composed with the generating model *)
  Theorem resolve_g_error_answer_last_and_matching :
    (forall v, veqb v v = true) -> (forall s, vs_eqb O s s = true) -> (forall a b, veqb a b = true -> a = b) ->
    forall (pg : tprovider) fuel r v res tr, resolve_g O veqb pg fuel r v = (res, tr) ->
      forall pre e rest, tr = pre ++ e :: rest -> is_err e = true -> rest = [] /\ err_outcome e = Some (fst (fst (fst res))).
  Proof.
    intros Hvrefl Hsrefl Hveq pg fuel r v res tr Hg pre e rest Htr He.
    destruct (resolve_g_is_resolve_run Hvrefl Hsrefl pg fuel r v res tr Hg) as (la & Hres & _ & Hf).
    destruct res as [[[o st] log] cnt]. cbn [fst snd] in *. split.
    - apply (resolve_error_answer_last O veqb fuel r v (tr ++ la) o st log cnt Hres pre e rest); [|exact He].
      rewrite Hf. exact Htr.
    - apply (resolve_error_answer_outcome O veqb Hveq fuel r v (tr ++ la) o st log cnt Hres e); [|exact He].
      rewrite Hf, Htr. apply in_elt.
  Qed.

  (* ================================================================ the theorem *)
  Theorem resolve_g_error_aborts_faithfully :
    (forall v, veqb v v = true) -> (forall s, vs_eqb O s s = true) -> (forall a b, veqb a b = true -> a = b) ->
    forall (pg : tprovider) fuel r v res tr, resolve_g O veqb pg fuel r v = (res, tr) ->
      (* an error answer is the LAST call of the run and the outcome is the matching error variant *)
      (forall pre e rest, tr = pre ++ e :: rest -> is_err e = true -> rest = [] /\ err_outcome e = Some (fst (fst (fst res))))
      (* conversely an error outcome is explained by an error answer of the provider, which is the last call *)
      /\ (fst (fst (fst res)) = OErrCancel -> exists pre, tr = pre ++ [EvCancel false])
      /\ (fst (fst (fst res)) = OErrChoose -> exists pre p s, tr = pre ++ [EvChoose p s CErr])
      /\ (forall p w, fst (fst (fst res)) = OErrDeps p w -> exists pre, tr = pre ++ [EvDeps p w DErr])
      (* a version outside the offered set is refused: Failure, and no call is made after that answer *)
      /\ (forall pre p s w rest, tr = pre ++ EvChoose p s (CSome w) :: rest -> vs_contains O s w = false ->
            rest = [] /\ fst (fst (fst res)) = OFailure FIncompatibleVersion).
  Proof.
    intros Hvrefl Hsrefl Hveq pg fuel r v res tr Hg.
    split; [exact (resolve_g_error_answer_last_and_matching Hvrefl Hsrefl Hveq pg fuel r v res tr Hg)|].
    exact (proj2 (resolve_g_error_aborts_direct pg fuel r v res tr Hg)).
  Qed.
End FaultsEndToEnd.

Print Assumptions resolve_g_error_aborts_direct.
Print Assumptions resolve_g_is_resolve_run.
Print Assumptions resolve_g_error_answer_last_and_matching.
Print Assumptions resolve_g_error_aborts_faithfully.
