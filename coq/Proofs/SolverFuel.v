(* The fuel of the solver model is not a behavioural parameter: once a run ends with anything other
   than "out of fuel", every run with more fuel returns exactly the same result (outcome, state,
   decision log, number of consumed events).  Hence two runs on the same trace that both do not run
   out of fuel agree. *)
From Coq Require Import List NArith ZArith Bool Lia.
From PG Require Import Model.VS Model.Term Model.Solver.
Import ListNotations.

Section Fuel.
  Context {VS Vr : Type} (O : VSOps VS Vr) (veqb : Vr -> Vr -> bool).
  Notation event := (@event VS Vr).
  Notation outcome := (@outcome VS Vr).

  (* ---------------------------------------------------------------- conflict_resolution *)
  (* functional form: the run with more fuel equals the run with less fuel, if the latter is not EFuel *)
  Lemma conflict_resolution_fuel_mono_fn f : forall f' st cur chg,
    f <= f' -> conflict_resolution O f st cur chg <> inr EFuel ->
    conflict_resolution O f' st cur chg = conflict_resolution O f st cur chg.
  Proof.
    induction f as [|f IH]; intros f' st cur chg Hle; cbn [conflict_resolution]; [congruence|].
    destruct f' as [|f']; [lia|]. cbn [conflict_resolution].
    destruct (nth_error (store st) cur) as [ci|]; [|reflexivity].
    destruct (is_terminal O ci (root st) (rootv st)); [reflexivity|].
    destruct (satisfier_search O (terms ci) (ps st) (store st)) as [[p [L|cause]]|s]; try reflexivity.
    destruct (nth_error (store st) cause) as [cj|]; [|reflexivity].
    destruct (prior_cause O cur cause (terms ci) (terms cj) p) as [pc|s]; [|reflexivity].
    destruct (alloc st pc) as [st' id]. apply IH. lia.
  Qed.

  Lemma conflict_resolution_fuel_mono : forall f f' st cur chg r,
    f <= f' -> conflict_resolution O f st cur chg = r -> r <> inr EFuel -> conflict_resolution O f' st cur chg = r.
  Proof.
    intros f f' st cur chg r Hle <- Hne. now apply conflict_resolution_fuel_mono_fn.
  Qed.

  (* ---------------------------------------------------------------- unit_propagation *)
  Lemma unit_propagation_fuel_mono_fn f : forall f' st buffer,
    f <= f' -> unit_propagation O f st buffer <> inr EFuel ->
    unit_propagation O f' st buffer = unit_propagation O f st buffer.
  Proof.
    induction f as [|f IH]; intros f' st buffer Hle; cbn [unit_propagation]; [congruence|].
    destruct f' as [|f']; [lia|]. cbn [unit_propagation].
    assert (Hle' : f <= f') by lia.
    destruct (rev buffer) as [|cur rest_rev]; [reflexivity|].
    destruct (get cur (index st)) as [ids|]; [|reflexivity].
    destruct (scan_incompats O (rev ids) st (rev rest_rev)) as [[[st1 buffer2] [conflict|]]|s]; [| |reflexivity].
    - intros H.
      assert (Hcr : conflict_resolution O f st1 conflict false <> inr EFuel).
      { intros E. rewrite E in H. now apply H. }
      rewrite (conflict_resolution_fuel_mono_fn f f' st1 conflict false Hle' Hcr).
      destruct (conflict_resolution O f st1 conflict false) as [[st2 q root_cause|st2 id]|e]; try reflexivity.
      destruct (nth_error (store st2) root_cause) as [rc|]; [|reflexivity].
      destruct (add_derivation O (ps st2) q root_cause (terms rc)) as [p'|s]; [|reflexivity].
      apply IH; assumption.
    - apply IH; assumption.
  Qed.

  Lemma unit_propagation_fuel_mono : forall f f' st buffer r,
    f <= f' -> unit_propagation O f st buffer = r -> r <> inr EFuel -> unit_propagation O f' st buffer = r.
  Proof.
    intros f f' st buffer r Hle <- Hne. now apply unit_propagation_fuel_mono_fn.
  Qed.

  (* ---------------------------------------------------------------- resolve_loop / resolve *)
  Definition outcome_of (r : @result VS Vr) : outcome := fst (fst (fst r)).

  Lemma resolve_loop_fuel_mono_fn f : forall f' st next added (tr : list event) n log,
    f <= f' -> outcome_of (resolve_loop O veqb f st next added tr n log) <> OOutOfFuel ->
    resolve_loop O veqb f' st next added tr n log = resolve_loop O veqb f st next added tr n log.
  Proof.
    unfold outcome_of.
    induction f as [|f IH]; intros f' st next added tr n log Hle; cbn [resolve_loop fst]; [congruence|].
    destruct f' as [|f']; [lia|]. cbn [resolve_loop].
    assert (Hle' : f <= f') by lia.
    destruct tr as [|[ok| | |] tr1]; try reflexivity.
    destruct ok; cbn [negb]; [|reflexivity].
    intros H.
    assert (Hup : unit_propagation O (S f) st [next] <> inr EFuel).
    { intros E. rewrite E in H. now apply H. }
    rewrite (unit_propagation_fuel_mono_fn (S f) (S f') st [next] Hle Hup).
    destruct (unit_propagation O (S f) st [next]) as [[st1|st1 id]|[|s]]; try reflexivity.
    destruct (do_prioritize O (pick_candidates (ps st1)) (queue (ps st1)) tr1 (S n)) as [[[q tr2] n2]|o];
      [|reflexivity].
    cbv zeta in H |- *.
    destruct (queue_max q) as [mx|]; [|reflexivity].
    destruct tr2 as [|[| |p s ans|] tr3]; try reflexivity.
    destruct (get p q) as [[prio qs]|]; [|reflexivity].
    destruct (negb (Z.eqb prio mx)); [reflexivity|].
    destruct (term_for _ p) as [[cur|cur]|]; try reflexivity.
    destruct (negb (vs_eqb O s cur)); [reflexivity|].
    destruct ans as [v| |]; [| |reflexivity].
    - destruct (negb (t_contains O (Pos cur) v)); [reflexivity|].
      destruct (added_has veqb added p v).
      + unfold res_out in H |- *. destruct (add_decision O _ p v); [|reflexivity]. apply IH; assumption.
      + destruct tr3 as [|[| | |p' v' dans] tr4]; try reflexivity.
        destruct (negb (N.eqb p p' && veqb v v')); [reflexivity|].
        destruct dans as [deps|m|]; [| |reflexivity].
        * unfold res_out in H |- *.
          destruct (add_incompatibility_from_dependencies O _ p v deps) as [[st3 range]|]; [|reflexivity].
          destruct (add_version O (ps st3) p v range (store st3)); [|reflexivity]. apply IH; assumption.
        * unfold res_out in H |- *.
          destruct (add_incompatibility O _ (custom_version O p v m)); [|reflexivity]. apply IH; assumption.
    - destruct (no_versions p (Pos cur)) as [inc|]; [|reflexivity].
      unfold res_out in H |- *. destruct (add_incompatibility O _ inc); [|reflexivity]. apply IH; assumption.
  Qed.

  Lemma resolve_loop_fuel_mono : forall f f' st next added (tr : list event) n log o st' log' cnt,
    f <= f' -> resolve_loop O veqb f st next added tr n log = (o, st', log', cnt) -> o <> OOutOfFuel ->
    resolve_loop O veqb f' st next added tr n log = (o, st', log', cnt).
  Proof.
    intros f f' st next added tr n log o st' log' cnt Hle H Hne. rewrite <- H.
    apply resolve_loop_fuel_mono_fn; [assumption|]. unfold outcome_of. rewrite H. exact Hne.
  Qed.

  Theorem resolve_fuel_mono : forall f f' r v tr o st log cnt,
    f <= f' -> resolve O veqb f r v tr = (o, st, log, cnt) -> o <> OOutOfFuel ->
    resolve O veqb f' r v tr = (o, st, log, cnt).
  Proof.
    unfold resolve. intros f f' r v tr o st log cnt. apply resolve_loop_fuel_mono.
  Qed.

  Corollary resolve_fuel_irrelevant : forall f1 f2 r v tr o1 st1 log1 c1 o2 st2 log2 c2,
    resolve O veqb f1 r v tr = (o1, st1, log1, c1) -> resolve O veqb f2 r v tr = (o2, st2, log2, c2) ->
    o1 <> OOutOfFuel -> o2 <> OOutOfFuel -> (o1, st1, log1, c1) = (o2, st2, log2, c2).
  Proof.
    intros f1 f2 r v tr o1 st1 log1 c1 o2 st2 log2 c2 H1 H2 N1 N2.
    destruct (Nat.le_ge_cases f1 f2) as [Hle|Hle].
    - rewrite <- H2. symmetry. eapply resolve_fuel_mono; eassumption.
    - rewrite <- H1. eapply resolve_fuel_mono; eassumption.
  Qed.

  (* the same, for the sufficient-fuel reading: any fuel at which the run does not end with OOutOfFuel
     gives the result of the run with the larger of the two fuels *)
  Corollary resolve_fuel_max : forall f1 f2 r v tr,
    outcome_of (resolve O veqb f1 r v tr) <> OOutOfFuel ->
    resolve O veqb (Nat.max f1 f2) r v tr = resolve O veqb f1 r v tr.
  Proof.
    intros f1 f2 r v tr H. unfold resolve in *. apply resolve_loop_fuel_mono_fn; [lia|exact H].
  Qed.
End Fuel.

Print Assumptions conflict_resolution_fuel_mono.
Print Assumptions unit_propagation_fuel_mono.
Print Assumptions resolve_fuel_mono.
Print Assumptions resolve_fuel_irrelevant.
