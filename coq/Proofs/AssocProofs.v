(* Association-list lemmas for the maps of the solver model (get / set / remove over package keys). *)
From Coq Require Import List NArith Bool.
From PG Require Import Model.VS Model.Term Model.Solver.
Import ListNotations.

Section Assoc.
  Context {A : Type}.
  Implicit Types (m : list (pkg * A)) (p q : pkg).

  Definition keys m := map fst m.

  Lemma get_In p m a : get p m = Some a -> In (p, a) m.
  Proof.
    induction m as [|[q b] m IH]; cbn; [discriminate|].
    destruct (N.eqb_spec p q) as [->|Hne]; [intros H; injection H as ->; now left|]. intros H. right. auto.
  Qed.

  Lemma get_None p m : get p m = None <-> ~ In p (keys m).
  Proof.
    induction m as [|[q b] m IH]; cbn; [tauto|].
    destruct (N.eqb_spec p q) as [->|Hne]; [split; [discriminate|tauto]|].
    rewrite IH. split; [intros H [E|E]; [congruence|tauto]|tauto].
  Qed.

  Lemma In_get p m a : NoDup (keys m) -> In (p, a) m -> get p m = Some a.
  Proof.
    induction m as [|[q b] m IH]; cbn; intros Hnd Hin; [destruct Hin|].
    inversion Hnd as [|? ? Hn Hd]; subst.
    destruct Hin as [E|Hin].
    - injection E as -> ->. now rewrite N.eqb_refl.
    - destruct (N.eqb_spec p q) as [->|Hne]; [|auto].
      exfalso. apply Hn. change q with (fst (q, a)). now apply in_map.
  Qed.

  Lemma get_set_same p a m : get p (set p a m) = Some a.
  Proof.
    induction m as [|[q b] m IH]; cbn; [now rewrite N.eqb_refl|].
    destruct (N.eqb_spec p q) as [->|Hne]; cbn; [now rewrite N.eqb_refl|].
    destruct (N.eqb_spec p q); [congruence|exact IH].
  Qed.

  Lemma get_set_other p q a m : p <> q -> get q (set p a m) = get q m.
  Proof.
    intros Hne. induction m as [|[k b] m IH]; cbn.
    - destruct (N.eqb_spec q p); [congruence|reflexivity].
    - destruct (N.eqb_spec p k) as [->|Hpk]; cbn.
      + destruct (N.eqb_spec q k); [congruence|reflexivity].
      + destruct (N.eqb_spec q k); [reflexivity|exact IH].
  Qed.

  Lemma keys_set p a m x : In x (keys (set p a m)) <-> x = p \/ In x (keys m).
  Proof.
    induction m as [|[k b] m IH]; cbn; [intuition congruence|].
    destruct (N.eqb_spec p k) as [->|Hpk]; cbn; [intuition congruence|]. rewrite IH. intuition congruence.
  Qed.

  Lemma nodup_set p a m : NoDup (keys m) -> NoDup (keys (set p a m)).
  Proof.
    induction m as [|[k b] m IH]; cbn; intros H.
    - constructor; [tauto|constructor].
    - inversion H as [|? ? Hn Hd]; subst. destruct (N.eqb_spec p k) as [->|Hpk]; cbn.
      + constructor; assumption.
      + constructor; [|auto]. fold (keys (set p a m)). rewrite keys_set. intuition congruence.
  Qed.

  Lemma get_remove_same p m : get p (remove p m) = None.
  Proof.
    induction m as [|[k b] m IH]; cbn; [reflexivity|].
    destruct (N.eqb_spec p k) as [->|Hpk]; [exact IH|]. cbn. destruct (N.eqb_spec p k); [congruence|exact IH].
  Qed.

  Lemma get_remove_other p q m : p <> q -> get q (remove p m) = get q m.
  Proof.
    intros Hne. induction m as [|[k b] m IH]; cbn; [reflexivity|].
    destruct (N.eqb_spec p k) as [->|Hpk].
    - destruct (N.eqb_spec q k); [congruence|exact IH].
    - cbn. destruct (N.eqb_spec q k); [reflexivity|exact IH].
  Qed.

  Lemma keys_remove p m x : In x (keys (remove p m)) -> In x (keys m) /\ x <> p.
  Proof.
    induction m as [|[k b] m IH]; cbn; [tauto|].
    destruct (N.eqb_spec p k) as [->|Hpk]; cbn.
    - intros H. destruct (IH H). tauto.
    - intros [E|H]; [subst; split; [now left|congruence]|]. destruct (IH H). tauto.
  Qed.

  Lemma nodup_remove p m : NoDup (keys m) -> NoDup (keys (remove p m)).
  Proof.
    induction m as [|[k b] m IH]; cbn; intros H; [constructor|].
    inversion H as [|? ? Hn Hd]; subst. destruct (N.eqb_spec p k) as [->|Hpk]; cbn; [auto|].
    constructor; [|auto]. intros Hin. apply keys_remove in Hin. tauto.
  Qed.

  Lemma get_app p m m' : get p (m ++ m') = match get p m with Some a => Some a | None => get p m' end.
  Proof.
    induction m as [|[k b] m IH]; cbn; [reflexivity|]. destruct (N.eqb_spec p k); [reflexivity|exact IH].
  Qed.

  Lemma keys_app m m' : keys (m ++ m') = keys m ++ keys m'.
  Proof. apply map_app. Qed.

  Lemma nodup_snoc m p a : NoDup (keys m) -> get p m = None -> NoDup (keys (m ++ [(p, a)])).
  Proof.
    intros Hnd Hg. apply get_None in Hg. induction m as [|[k b] m IH]; cbn in *.
    - constructor; [tauto|constructor].
    - inversion Hnd as [|? ? Hn Hd]; subst. constructor.
      + fold (keys (m ++ [(p, a)])). rewrite keys_app, in_app_iff. cbn. intuition congruence.
      + apply IH; [assumption|tauto].
  Qed.
End Assoc.
