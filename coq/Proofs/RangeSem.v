(* Semantics of ranges as sets of positions; canonical form; correctness of union. *)
From Coq Require Import Orders OrdersFacts List Bool.
From PG Require Import Model.Range Proofs.PosOrder Proofs.RangeTables.

Module RangeSemP (V : UsualOrderedTypeFull).
  Module Export RT := RangeTablesP V.

  Definition lo (s : seg) : pos := lo_of (fst s).
  Definition hi (s : seg) : pos := hi_of (snd s).
  Definition in_seg (x : pos) (s : seg) : Prop := lo s <=p x /\ x <=p hi s.
  Definition den (r : range) (x : pos) : Prop := exists s, In s r /\ in_seg x s.
  Definition valid (s : seg) : Prop := lo s <=p hi s.

  (* the next segment (if any) starts after a gap above [h] *)
  Definition above (h : pos) (r : range) : Prop :=
    match r with [] => True | s :: _ => gap h (lo s) end.

  Fixpoint canonical (r : range) : Prop :=
    match r with
    | [] => True
    | s :: rest => valid s /\ above (hi s) rest /\ canonical rest
    end.

  Lemma den_nil x : ~ den [] x.
  Proof. intros [s [[] _]]. Qed.

  Lemma den_cons s r x : den (s :: r) x <-> in_seg x s \/ den r x.
  Proof.
    unfold den; split.
    - intros [s' [[<-|Hin] Hs]]; [now left|right; eauto].
    - intros [H|[s' [Hin Hs]]]; [exists s; cbn; auto|exists s'; cbn; auto].
  Qed.

  Lemma den_app a b x : den (a ++ b) x <-> den a x \/ den b x.
  Proof.
    induction a as [|s a IH]; cbn [app].
    - split; [auto|intros [H|H]; [destruct (den_nil _ H)|assumption]].
    - rewrite !den_cons, IH. tauto.
  Qed.

  Lemma gap_lt h l : gap h l -> h <p l.
  Proof. intros [x [H1 H2]]. porder. Qed.

  Lemma gap_mono h h' l l' : gap h l -> h' <=p h -> l <=p l' -> gap h' l'.
  Proof. intros [x [H1 H2]] Hh Hl. exists x. split; porder. Qed.

  (* every position of a canonical range above [h] is strictly above [h], beyond a gap *)
  Lemma canonical_above_all h r :
    canonical r -> above h r -> Forall (fun s => gap h (lo s)) r.
  Proof.
    revert h; induction r as [|s r IH]; intros h Hc Ha; constructor.
    - exact Ha.
    - destruct Hc as (Hv & Hab & Hc). specialize (IH (hi s) Hc Hab).
      eapply Forall_impl; [|exact IH]. intros s' Hg. cbn beta in *.
      eapply gap_mono; [exact Hg| |porder]. apply gap_lt in Ha. unfold valid in Hv. porder.
  Qed.

  Lemma canonical_above_den h r x : canonical r -> above h r -> den r x -> h <p x.
  Proof.
    intros Hc Ha [s [Hin [Hl Hh]]].
    pose proof (canonical_above_all h r Hc Ha) as Hall.
    rewrite Forall_forall in Hall. apply Hall, gap_lt in Hin. porder.
  Qed.

  Lemma canonical_valid r : canonical r -> Forall valid r.
  Proof. induction r as [|s r IH]; intros Hc; constructor; cbn in Hc; tauto. Qed.

  Lemma check_invariants_spec r : check_invariants r = true <-> canonical r.
  Proof.
    unfold check_invariants. induction r as [|s r IH]; [cbn; tauto|].
    destruct s as [s0 s1]. cbn [canonical gaps_ok forallb fst snd].
    destruct r as [|[t0 t1] r'].
    - cbn. rewrite andb_true_r. unfold valid, lo, hi; cbn. rewrite valid_segment_spec. tauto.
    - rewrite <- IH. cbn [above]. unfold valid, lo, hi. cbn [fst snd forallb gaps_ok].
      rewrite !andb_true_iff, gap_spec, valid_segment_spec. tauto.
  Qed.

  (* ------------------------------------------------------------------ *)
  (* union = coalesce (merge a b) *)

  (* segments valid, starts weakly increasing and all >= l *)
  Fixpoint sorted_from (l : pos) (r : range) : Prop :=
    match r with
    | [] => True
    | s :: rest => l <=p lo s /\ valid s /\ sorted_from (lo s) rest
    end.

  Lemma sorted_from_weaken l l' r : l' <=p l -> sorted_from l r -> sorted_from l' r.
  Proof. destruct r as [|s r]; cbn; [auto|]. intros H (H1 & H2 & H3). repeat split; auto. porder. Qed.

  Lemma canonical_sorted r l : canonical r -> (match r with [] => True | s :: _ => l <=p lo s end) ->
    sorted_from l r.
  Proof.
    revert l; induction r as [|s r IH]; intros l Hc Hl; cbn; [trivial|].
    destruct Hc as (Hv & Ha & Hc). repeat split; auto. apply IH; auto.
    destruct r as [|s' r']; [trivial|]. cbn in Ha. apply gap_lt in Ha. unfold valid in Hv. porder.
  Qed.

  Lemma merge_cons_cons x l y r :
    merge (x :: l) (y :: r) =
    if left_start_is_smaller (fst x) (fst y) then x :: merge l (y :: r) else y :: merge (x :: l) r.
  Proof. reflexivity. Qed.

  Lemma merge_nil_r l : merge l [] = l.
  Proof. destruct l; reflexivity. Qed.

  Lemma merge_den a b x : den (merge a b) x <-> den a x \/ den b x.
  Proof.
    revert b; induction a as [|s a IHa]; intros b.
    - cbn. split; [auto|intros [H|H]; [destruct (den_nil _ H)|assumption]].
    - induction b as [|t b IHb].
      + rewrite merge_nil_r. split; [auto|intros [H|H]; [assumption|destruct (den_nil _ H)]].
      + rewrite merge_cons_cons. destruct (left_start_is_smaller (fst s) (fst t)).
        * rewrite !den_cons, IHa, den_cons. tauto.
        * rewrite !den_cons, IHb, den_cons. tauto.
  Qed.

  Lemma merge_sorted l a b : sorted_from l a -> sorted_from l b -> sorted_from l (merge a b).
  Proof.
    revert l b; induction a as [|s a IHa]; intros l b Ha Hb; [exact Hb|].
    revert l Ha Hb; induction b as [|t b IHb]; intros l Ha Hb.
    - rewrite merge_nil_r. exact Ha.
    - rewrite merge_cons_cons. destruct (left_start_is_smaller (fst s) (fst t)) eqn:E.
      + apply lsis_spec in E. cbn in Ha, Hb |- *. destruct Ha as (H1 & H2 & H3), Hb as (H4 & H5 & H6).
        repeat split; auto. apply IHa; auto. cbn. repeat split; auto.
      + assert (lo t <p lo s) as E'.
        { destruct (plt_dec (lo t) (lo s)) as [?|Hge]; [assumption|].
          apply lsis_spec in Hge. unfold lo in *. congruence. }
        cbn in Ha, Hb |- *. destruct Ha as (H1 & H2 & H3), Hb as (H4 & H5 & H6).
        repeat split; auto. apply IHb; auto. cbn. repeat split; auto. porder.
  Qed.

  Lemma coalesce_head acc rest : exists e tl, coalesce acc rest = (fst acc, e) :: tl.
  Proof.
    revert acc; induction rest as [|s rest IH]; intros [a0 a1]; cbn [coalesce fst snd].
    - eauto.
    - destruct (end_before_start_with_gap a1 (fst s)); [eauto|].
      destruct (IH (a0, acc_end a1 (snd s))) as (e & tl & ->). eauto.
  Qed.

  Lemma coalesce_den acc rest x :
    valid acc -> sorted_from (lo acc) rest ->
    (den (coalesce acc rest) x <-> in_seg x acc \/ den rest x).
  Proof.
    revert acc; induction rest as [|s rest IH]; intros acc Hv Hs; cbn [coalesce].
    - rewrite den_cons. tauto.
    - cbn in Hs. destruct Hs as (Hl & Hvs & Hs).
      destruct (end_before_start_with_gap (snd acc) (fst s)) eqn:E.
      + rewrite den_cons, IH, den_cons by assumption. tauto.
      + assert (Hng : ~ gap (hi acc) (lo s)).
        { intros Hg. apply gap_spec in Hg. unfold lo, hi in *. congruence. }
        set (acc' := (fst acc, acc_end (snd acc) (snd s))).
        assert (Hhi : hi acc' = pmax (hi acc) (hi s)) by (unfold hi, acc'; cbn; apply acc_end_spec).
        assert (Hlo : lo acc' = lo acc) by reflexivity.
        rewrite IH; [| |rewrite Hlo; eapply sorted_from_weaken; eauto].
        2:{ unfold valid in *. rewrite Hhi, Hlo. destruct (pmax_spec (hi acc) (hi s)) as [[? ->]|[? ->]]; porder. }
        rewrite den_cons. unfold in_seg. rewrite Hhi, Hlo.
        destruct (pmax_spec (hi acc) (hi s)) as [[Hm ->]|[Hm ->]]; unfold valid in *; split.
        * intros [[H1 H2]|H]; [|tauto].
          destruct (ple_dec x (hi acc)); [left; split; assumption|].
          right; left. split; [|assumption].
          destruct (ple_dec (lo s) x); [assumption|]. exfalso. apply Hng. exists x. split; assumption.
        * intros [[H1 H2]|[[H1 H2]|H]]; [left; split; porder|left; split; porder|tauto].
        * intros [[H1 H2]|H]; [left; split; assumption|tauto].
        * intros [[H1 H2]|[[H1 H2]|H]]; [left; split; porder|left; split; porder|tauto].
  Qed.

  Lemma coalesce_canonical acc rest :
    valid acc -> sorted_from (lo acc) rest -> canonical (coalesce acc rest).
  Proof.
    revert acc; induction rest as [|s rest IH]; intros acc Hv Hs; cbn [coalesce].
    - cbn. auto.
    - cbn in Hs. destruct Hs as (Hl & Hvs & Hs).
      destruct (end_before_start_with_gap (snd acc) (fst s)) eqn:E.
      + cbn [canonical]. repeat split; auto.
        destruct (coalesce_head s rest) as (e & tl & ->). cbn. apply gap_spec in E. exact E.
      + apply IH.
        * unfold valid, hi, lo in *; cbn. rewrite acc_end_spec.
          destruct (pmax_spec (hi_of (snd acc)) (hi_of (snd s))) as [[? ->]|[? ->]]; porder.
        * eapply sorted_from_weaken; eauto.
  Qed.

  Lemma union_den a b x : canonical a -> canonical b -> (den (union a b) x <-> den a x \/ den b x).
  Proof.
    intros Ha Hb. unfold union.
    assert (Hs : sorted_from NegInf (merge a b)).
    { apply merge_sorted; apply canonical_sorted; auto; [destruct a|destruct b]; trivial; apply neginf_le. }
    rewrite <- merge_den. destruct (merge a b) as [|s rest]; [tauto|].
    cbn in Hs. destruct Hs as (_ & Hv & Hs). rewrite coalesce_den, den_cons by assumption. tauto.
  Qed.

  Lemma union_canonical a b : canonical a -> canonical b -> canonical (union a b).
  Proof.
    intros Ha Hb. unfold union.
    assert (Hs : sorted_from NegInf (merge a b)).
    { apply merge_sorted; apply canonical_sorted; auto; [destruct a|destruct b]; trivial; apply neginf_le. }
    destruct (merge a b) as [|s rest]; [exact I|].
    cbn in Hs. destruct Hs as (_ & Hv & Hs). now apply coalesce_canonical.
  Qed.

End RangeSemP.
