(* C04 (model side), part 1: the partial solution indexed by TIME (global indices of assignments).
   [lookup_before g] = the term of a package restricted to its assignments with global index < g;
   (K) [kinv]: decision levels are monotone in global indices; (J) [jr]: every dated derivation is justified by
   its cause, whose other terms were satisfied just before it.  How add_derivation, add_decision and
   ps_backtrack act on them. *)
From Coq Require Import List NArith ZArith Bool Lia PeanoNat.
From PG Require Import Model.VS Model.Term Model.Solver Model.Registry Proofs.VSLaws Proofs.TermProofs
  Proofs.AssocProofs Proofs.SolverSem Proofs.SolverStore Proofs.SolverQueue Proofs.SolverSound1.
Import ListNotations.

Section Reach1.
  Context {VS Vr : Type} (O : VSOps VS Vr) (L : VSLawful O).
  Notation tm := (term VS).
  Notation pa := (@pa VS Vr).
  Notation dated := (@dated VS).
  Notation psol := (@psol VS Vr).
  Notation incompat := (@incompat VS Vr).
  Notation twf := (twf O L).
  Notation sat := (sat_term O).
  Notation tle := (tle O).
  Notation ps_chain := (ps_chain O).
  Notation pa_chain := (pa_chain O).
  Notation rchain := (rchain O).
  Notation ps_wf := (ps_wf O L).

  (* ---------------------------------------------------------------- the term of a package before a global index *)
  (* on the newest-first list: skip the assignments made at or after [g] *)
  Fixpoint dwge (g : nat) (l : list dated) : list dated :=
    match l with
    | [] => []
    | dd :: r => if Nat.leb g (d_gidx dd) then dwge g r else l
    end.

  Definition hd_acc (l : list dated) : option tm := match l with [] => None | d :: _ => Some (d_accum d) end.

  Definition der_before (g : nat) (ds : list dated) : option tm := hd_acc (dwge g (rev ds)).

  Definition term_before (g : nat) (a : pa) : option tm :=
    match ai a with
    | ADecision gd _ t => if Nat.ltb gd g then Some t else der_before g (derivs a)
    | ADerivations _ => der_before g (derivs a)
    end.

  Definition lookup_before (g : nat) (asg : list (pkg * pa)) (q : pkg) : option tm :=
    match get q asg with Some a => term_before g a | None => None end.

  (* the assignments (global index, decision level) of a package *)
  Definition evt (a : pa) (g l : nat) : Prop :=
    (exists dd, In dd (derivs a) /\ d_gidx dd = g /\ d_level dd = l)
    \/ (exists v t, ai a = ADecision g v t /\ highest a = l).

  (* (K) all global indices are below next_gidx; levels are monotone in global indices *)
  Definition kinv (p : psol) : Prop :=
    (forall q a g l, get q (assignments p) = Some a -> evt a g l -> g < next_gidx p)
    /\ (forall q1 a1 g1 l1 q2 a2 g2 l2,
          get q1 (assignments p) = Some a1 -> evt a1 g1 l1 ->
          get q2 (assignments p) = Some a2 -> evt a2 g2 l2 -> g1 <= g2 -> l1 <= l2).

  (* newest first: global indices strictly decrease *)
  Fixpoint gdesc (l : list dated) : Prop :=
    match l with
    | [] => True
    | d :: r => Forall (fun d' => d_gidx d' < d_gidx d) r /\ gdesc r
    end.

  (* within a package: derivations in order of their global indices, the decision after all of them, and a
     decision is only taken on a positive term *)
  Definition pa_g (a : pa) : Prop :=
    gdesc (rev (derivs a))
    /\ forall g v t, ai a = ADecision g v t ->
         (forall dd, In dd (derivs a) -> d_gidx dd < g)
         /\ exists dl rest, rev (derivs a) = dl :: rest /\ t_is_positive (d_accum dl) = true.

  (* (J) the derivation [dd] of package [q], made when the accumulated term of [q] was [prev] *)
  Definition just (sto : list incompat) (m : list (pkg * pa)) (q : pkg) (dd : dated) (prev : option tm) : Prop :=
    exists I ct,
      nth_error sto (d_cause dd) = Some I /\ get q (terms I) = Some ct
      /\ d_accum dd = match prev with None => t_negate ct | Some t => t_intersection O t (t_negate ct) end
      /\ forall x t, In (x, t) (terms I) -> x <> q ->
           exists tx, lookup_before (d_gidx dd) m x = Some tx /\ tle tx t.

  Fixpoint jr (sto : list incompat) (m : list (pkg * pa)) (q : pkg) (l : list dated) : Prop :=
    match l with
    | [] => True
    | dd :: r => just sto m q dd (hd_acc r) /\ jr sto m q r
    end.

  (* ---------------------------------------------------------------- dwge *)
  Lemma dwge_incl g (l : list dated) x : In x (dwge g l) -> In x l.
  Proof.
    induction l as [|d l IH]; cbn [dwge]; [tauto|].
    destruct (Nat.leb g (d_gidx d)); [intros H; right; auto|intros H; exact H].
  Qed.

  Lemma dwge_head g (l : list dated) dd r : dwge g l = dd :: r -> d_gidx dd < g /\ In dd l.
  Proof.
    induction l as [|d l IH]; cbn [dwge]; [discriminate|].
    destruct (Nat.leb_spec g (d_gidx d)) as [H|H].
    - intros E. destruct (IH E). split; [assumption|now right].
    - intros E. injection E as <- <-. split; [exact H|now left].
  Qed.

  Lemma dwge_app_drop g (pre l : list dated) : Forall (fun d => g <= d_gidx d) pre -> dwge g (pre ++ l) = dwge g l.
  Proof.
    induction 1 as [|d pre H _ IH]; cbn [app dwge]; [reflexivity|].
    destruct (Nat.leb_spec g (d_gidx d)); [exact IH|lia].
  Qed.

  Lemma dwge_all g (l : list dated) : Forall (fun d => g <= d_gidx d) l -> dwge g l = [].
  Proof. intros H. rewrite <- (app_nil_r l). rewrite dwge_app_drop by assumption. reflexivity. Qed.

  Lemma dwge_keep g d (l : list dated) : d_gidx d < g -> dwge g (d :: l) = d :: l.
  Proof. intros H. cbn [dwge]. destruct (Nat.leb_spec g (d_gidx d)); [lia|reflexivity]. Qed.

  Lemma der_before_snoc g ds dd :
    der_before g (ds ++ [dd]) = if Nat.leb g (d_gidx dd) then der_before g ds else Some (d_accum dd).
  Proof. unfold der_before. rewrite rev_app_distr. cbn [rev app dwge]. now destruct (Nat.leb g (d_gidx dd)). Qed.

  Lemma der_before_in g ds t : der_before g ds = Some t -> exists dd, In dd ds /\ d_gidx dd < g /\ t = d_accum dd.
  Proof.
    unfold der_before. destruct (dwge g (rev ds)) as [|dd r] eqn:E; [discriminate|]. cbn. intros H. injection H as <-.
    destruct (dwge_head _ _ _ _ E) as [H1 H2]. exists dd. split; [now apply in_rev|auto].
  Qed.

  (* ---------------------------------------------------------------- term_before *)
  Lemma term_before_in g a t :
    term_before g a = Some t ->
    (exists dd, In dd (derivs a) /\ d_gidx dd < g /\ t = d_accum dd)
    \/ (exists gd v, ai a = ADecision gd v t /\ gd < g).
  Proof.
    unfold term_before. destruct (ai a) as [gd v t0|t0] eqn:Ea.
    - destruct (Nat.ltb_spec gd g) as [H|H].
      + intros E. injection E as <-. right. eauto.
      + intros E. left. now apply der_before_in.
    - intros E. left. now apply der_before_in.
  Qed.

  (* nothing was assigned at or after [n]: the term before [n] is the current term *)
  Lemma term_before_cur n a :
    pa_chain a -> (forall g l, evt a g l -> g < n) -> term_before n a = Some (ai_term (ai a)).
  Proof.
    intros [Hc Hs] Hev. unfold term_before. destruct (ai a) as [gd v t0|t0] eqn:Ea; cbn [ai_term].
    - assert (gd < n) by (apply (Hev gd (highest a)); right; eauto).
      destruct (Nat.ltb_spec gd n); [reflexivity|lia].
    - unfold der_before. destruct (rev (derivs a)) as [|dl rest] eqn:Er; [destruct Hs|]. destruct Hs as [-> _].
      rewrite dwge_keep; [reflexivity|]. apply (Hev _ (d_level dl)). left. exists dl. split; [|auto].
      apply in_rev. rewrite Er. now left.
  Qed.

  (* the current term refines the term before any global index *)
  Lemma term_before_final g a tx : pa_chain a -> term_before g a = Some tx -> tle (ai_term (ai a)) tx.
  Proof.
    intros [Hc Hs] E. destruct (rev (derivs a)) as [|dl rest] eqn:Er; [destruct Hs|].
    assert (Hcur : tle (ai_term (ai a)) (d_accum dl)).
    { destruct (ai a) as [gd v t0|t0]; cbn [ai_term]; destruct Hs as [-> H]; [|apply tle_refl].
      apply (tle_exact O L). exact H. }
    apply term_before_in in E. destruct E as [(dd & Hin & _ & ->)|(gd & v & Ea & _)].
    - eapply tle_trans; [exact Hcur|]. apply (rchain_head_le O dl rest dd Hc). rewrite <- Er. now apply in_rev in Hin.
    - rewrite Ea. cbn. apply tle_refl.
  Qed.

  Lemma lookup_before_cur (p : psol) x :
    ps_chain (assignments p) -> kinv p -> lookup_before (next_gidx p) (assignments p) x = term_for p x.
  Proof.
    intros Hc [K1 _]. unfold lookup_before, term_for. destruct (get x (assignments p)) as [a|] eqn:E; [|reflexivity]. cbn.
    apply term_before_cur; [exact (ps_chain_get O _ _ _ Hc E)|]. intros g l. exact (K1 x a g l E).
  Qed.

  Lemma lookup_before_final (p : psol) g x tx :
    ps_chain (assignments p) -> lookup_before g (assignments p) x = Some tx ->
    exists tf, term_for p x = Some tf /\ tle tf tx.
  Proof.
    intros Hc. unfold lookup_before, term_for. destruct (get x (assignments p)) as [a|] eqn:E; [|discriminate].
    intros H. cbn. eexists. split; [reflexivity|]. eapply term_before_final; [exact (ps_chain_get O _ _ _ Hc E)|exact H].
  Qed.

  (* ---------------------------------------------------------------- gdesc, jr: suffixes and transfer *)
  Lemma gdesc_suffix pre : forall l, gdesc (pre ++ l) -> gdesc l.
  Proof. induction pre as [|d pre IH]; cbn; [auto|]. intros l [_ H]. auto. Qed.

  Lemma jr_suffix sto m q pre : forall l, jr sto m q (pre ++ l) -> jr sto m q l.
  Proof. induction pre as [|d pre IH]; cbn [app jr]; [auto|]. intros l [_ H]. auto. Qed.

  Lemma jr_transfer (sto sto' : list incompat) m m' q l :
    (forall id I, nth_error sto id = Some I -> nth_error sto' id = Some I) ->
    (forall dd, In dd l -> forall x, lookup_before (d_gidx dd) m' x = lookup_before (d_gidx dd) m x) ->
    jr sto m q l -> jr sto' m' q l.
  Proof.
    intros Hs. induction l as [|dd r IH]; cbn [jr]; [auto|]. intros Hk [(I & ct & Hn & Hg & Ha & Hx) Hr].
    split; [|apply IH; [intros d Hd; apply Hk; now right|exact Hr]].
    exists I, ct. split; [auto|]. split; [exact Hg|]. split; [exact Ha|].
    intros x t Hin Hne. rewrite (Hk dd (or_introl eq_refl)). auto.
  Qed.

  Lemma jr_in sto m q l : jr sto m q l -> forall pre dd r, l = pre ++ dd :: r -> just sto m q dd (hd_acc r).
  Proof. intros H pre dd r ->. apply jr_suffix in H. exact (proj1 H). Qed.

  (* ---------------------------------------------------------------- add_derivation *)
  Lemma add_derivation_gidx (p : psol) q cause cts p' :
    add_derivation O p q cause cts = Good p' -> next_gidx p' = S (next_gidx p).
  Proof.
    unfold add_derivation, bind, req. destruct (get q cts); [|discriminate].
    destruct (index_of q (assignments p) 0); [destruct (get q (assignments p)) as [a|]; [destruct (ai a); [discriminate|]|]|];
      intros E; now injection E as <-.
  Qed.

  Lemma evt_deriv_upd (p : psol) cause ct a t g l :
    ai a = ADerivations t ->
    (evt (deriv_upd O p cause ct a t) g l <-> evt a g l \/ (g = next_gidx p /\ l = level p)).
  Proof.
    intros Ea. unfold evt, deriv_upd. cbn [derivs ai highest]. rewrite Ea. split.
    - intros [(dd & Hin & H1 & H2)|(v & t0 & H & _)]; [|discriminate].
      apply in_app_or in Hin. destruct Hin as [Hin|[<-|[]]]; [left; left; eauto|right; cbn in *; auto].
    - intros [[(dd & Hin & H1 & H2)|(v & t0 & H & _)]|[-> ->]]; [|discriminate|].
      + left. exists dd. split; [apply in_or_app; now left|auto].
      + left. eexists. split; [apply in_or_app; right; now left|]. cbn. auto.
  Qed.

  Lemma evt_deriv_new (p : psol) cause ct g l :
    evt (deriv_new p cause ct) g l <-> (g = next_gidx p /\ l = level p).
  Proof.
    unfold evt, deriv_new. cbn [derivs ai highest]. split.
    - intros [(dd & [<-|[]] & H1 & H2)|(v & t0 & H & _)]; [cbn in *; auto|discriminate].
    - intros [-> ->]. left. eexists. split; [now left|]. cbn. auto.
  Qed.

  Lemma lookup_before_add_derivation (p : psol) q cause cts p' g x :
    add_derivation O p q cause cts = Good p' -> g <= next_gidx p ->
    lookup_before g (assignments p') x = lookup_before g (assignments p) x.
  Proof.
    intros E Hg. destruct (add_derivation_get O _ _ _ _ _ E) as (ct & a' & _ & _ & _ & Hget & Hcase).
    unfold lookup_before. rewrite Hget. destruct (N.eqb_spec x q) as [->|]; [|reflexivity].
    destruct Hcase as [(a & t & Hga & Ea & -> & _)|(Hga & -> & _)]; rewrite Hga.
    - unfold term_before. rewrite Ea. cbn [deriv_upd ai derivs]. rewrite der_before_snoc. cbn [d_gidx].
      destruct (Nat.leb_spec g (next_gidx p)); [reflexivity|lia].
    - unfold term_before, deriv_new, der_before. cbn. destruct (Nat.leb_spec g (next_gidx p)); [reflexivity|lia].
  Qed.

  Lemma layout_evt_level (p : psol) x a g l : layout p -> get x (assignments p) = Some a -> evt a g l -> l <= level p.
  Proof.
    intros Hl Hg. destruct (layout_get_ok p x a Hl Hg) as (K1 & K2 & K3 & K4).
    intros [(dd & Hin & _ & <-)|(v & t & _ & <-)]; [|exact K2].
    rewrite Forall_forall in K4. specialize (K4 _ Hin). cbn in K4. lia.
  Qed.

  Lemma kinv_add_derivation (p : psol) q cause cts p' :
    layout p -> kinv p -> add_derivation O p q cause cts = Good p' -> kinv p'.
  Proof.
    intros Hl [K1 K2] E. pose proof (add_derivation_gidx _ _ _ _ _ E) as Eg.
    destruct (add_derivation_get O _ _ _ _ _ E) as (ct & a' & _ & Elv & _ & Hget & Hcase).
    (* every assignment of the new partial solution is an old one or the new derivation *)
    assert (Hev : forall x a g l, get x (assignments p') = Some a -> evt a g l ->
                    (exists a0, get x (assignments p) = Some a0 /\ evt a0 g l) \/ (g = next_gidx p /\ l = level p)).
    { intros x a g l Hg He. rewrite Hget in Hg. destruct (N.eqb_spec x q) as [->|]; [|left; eauto].
      injection Hg as <-. destruct Hcase as [(a0 & t & Hga & Ea & -> & _)|(Hga & -> & _)].
      - apply (evt_deriv_upd p cause ct a0 t g l Ea) in He. destruct He as [He|He]; [left; eauto|now right].
      - apply evt_deriv_new in He. now right. }
    split.
    - intros x a g l Hg He. rewrite Eg. destruct (Hev x a g l Hg He) as [(a0 & Hg0 & He0)|[-> _]]; [|lia].
      pose proof (K1 x a0 g l Hg0 He0). lia.
    - intros x1 a1 g1 l1 x2 a2 g2 l2 Hg1 He1 Hg2 He2 Hle.
      destruct (Hev _ _ _ _ Hg1 He1) as [(b1 & Hb1 & Hv1)|[-> ->]], (Hev _ _ _ _ Hg2 He2) as [(b2 & Hb2 & Hv2)|[-> ->]].
      + exact (K2 _ _ _ _ _ _ _ _ Hb1 Hv1 Hb2 Hv2 Hle).
      + exact (layout_evt_level p _ _ _ _ Hl Hb1 Hv1).
      + pose proof (K1 _ _ _ _ Hb2 Hv2). lia.
      + lia.
  Qed.

  (* ---------------------------------------------------------------- add_decision *)
  Lemma add_decision_gidx (p : psol) q v p' : add_decision O p q v = Good p' -> next_gidx p' = S (next_gidx p).
  Proof.
    unfold add_decision. destruct (index_of q (assignments p) 0); [|discriminate].
    destruct (get q (assignments p)) as [a|]; [|discriminate]. destruct (ai a); [discriminate|].
    destruct (negb _); [discriminate|]. destruct (negb _); [discriminate|]. intros E. now injection E as <-.
  Qed.

  Lemma evt_decide_upd (p : psol) v a t g l :
    ai a = ADerivations t ->
    (evt (decide_upd O p v a) g l <-> evt a g l \/ (g = next_gidx p /\ l = S (level p))).
  Proof.
    intros Ea. unfold evt, decide_upd. cbn [derivs ai highest]. rewrite Ea. split.
    - intros [H|(w & t0 & H & <-)]; [left; now left|]. injection H as <- _ _. now right.
    - intros [[H|(w & t0 & H & _)]|[-> ->]]; [now left|discriminate|]. right. eauto.
  Qed.

  Lemma lookup_before_add_decision (p : psol) q v p' g x :
    layout p -> add_decision O p q v = Good p' -> g <= next_gidx p ->
    lookup_before g (assignments p') x = lookup_before g (assignments p) x.
  Proof.
    intros Hl E Hg. destruct (add_decision_get O _ _ _ _ Hl E) as (a & t & Hga & Ea & _ & _ & _ & Hget).
    unfold lookup_before. rewrite Hget. destruct (N.eqb_spec x q) as [->|]; [|reflexivity]. rewrite Hga.
    unfold term_before, decide_upd. cbn [ai derivs]. rewrite Ea. destruct (Nat.ltb_spec (next_gidx p) g); [lia|reflexivity].
  Qed.

  Lemma kinv_add_decision (p : psol) q v p' :
    layout p -> kinv p -> add_decision O p q v = Good p' -> kinv p'.
  Proof.
    intros Hl [K1 K2] E. pose proof (add_decision_gidx _ _ _ _ E) as Eg.
    destruct (add_decision_get O _ _ _ _ Hl E) as (a0 & t & Hga & Ea & _ & Elv & _ & Hget).
    assert (Hev : forall x a g l, get x (assignments p') = Some a -> evt a g l ->
                    (exists a1, get x (assignments p) = Some a1 /\ evt a1 g l) \/ (g = next_gidx p /\ l = S (level p))).
    { intros x a g l Hg He. rewrite Hget in Hg. destruct (N.eqb_spec x q) as [->|]; [|left; eauto].
      injection Hg as <-. apply (evt_decide_upd p v a0 t g l Ea) in He. destruct He as [He|He]; [left; eauto|now right]. }
    split.
    - intros x a g l Hg He. rewrite Eg. destruct (Hev x a g l Hg He) as [(a1 & Hg1 & He1)|[-> _]]; [|lia].
      pose proof (K1 x a1 g l Hg1 He1). lia.
    - intros x1 a1 g1 l1 x2 a2 g2 l2 Hg1 He1 Hg2 He2 Hle.
      destruct (Hev _ _ _ _ Hg1 He1) as [(b1 & Hb1 & Hv1)|[-> ->]], (Hev _ _ _ _ Hg2 He2) as [(b2 & Hb2 & Hv2)|[-> ->]].
      + exact (K2 _ _ _ _ _ _ _ _ Hb1 Hv1 Hb2 Hv2 Hle).
      + pose proof (layout_evt_level p _ _ _ _ Hl Hb1 Hv1). lia.
      + pose proof (K1 _ _ _ _ Hb2 Hv2). lia.
      + lia.
  Qed.

  (* ---------------------------------------------------------------- backtracking *)
  Lemma dwg_split Lv (l : list dated) :
    exists pre, l = pre ++ drop_while_gt Lv l /\ Forall (fun d => Lv < d_level d) pre
                /\ match drop_while_gt Lv l with [] => True | x :: _ => d_level x <= Lv end.
  Proof.
    induction l as [|d l (pre & E & H & H')]; cbn [drop_while_gt]; [exists []; auto|].
    destruct (Nat.ltb_spec Lv (d_level d)).
    - exists (d :: pre). split; [cbn; now rewrite <- E|]. split; [now constructor|exact H'].
    - exists []. split; [reflexivity|]. split; [constructor|lia].
  Qed.

  Lemma backtrack_pa_cases Lv (a : pa) oa :
    backtrack_pa Lv a = Good oa ->
    match oa with
    | None => Lv < smallest a
    | Some a' =>
        smallest a <= Lv /\
        ((a' = a /\ highest a <= Lv)
         \/ (Lv < highest a /\ exists pre dl rest,
               rev (derivs a) = pre ++ dl :: rest /\ Forall (fun d => Lv < d_level d) pre /\ d_level dl <= Lv
               /\ rev (derivs a') = dl :: rest /\ ai a' = ADerivations (d_accum dl)))
    end.
  Proof.
    unfold backtrack_pa. destruct (Nat.ltb_spec Lv (smallest a)) as [Hs|Hs]; [intros E; now injection E as <-|].
    destruct (Nat.leb_spec (highest a) Lv) as [Hh|Hh]; [intros E; injection E as <-; auto|].
    rewrite rev_involutive. destruct (dwg_split Lv (rev (derivs a))) as (pre & Epre & Hpre & Hhd).
    destruct (drop_while_gt Lv (rev (derivs a))) as [|dl rest]; [discriminate|].
    intros E. injection E as <-. split; [exact Hs|]. right. split; [exact Hh|].
    exists pre, dl, rest. cbn [derivs ai]. rewrite rev_app_distr, rev_involutive. cbn [rev app]. auto.
  Qed.

  Lemma backtrack_pa_evt Lv (a a' : pa) g l : backtrack_pa Lv a = Good (Some a') -> evt a' g l -> evt a g l.
  Proof.
    intros E. apply backtrack_pa_cases in E. destruct E as (_ & [[-> _]|(_ & pre & dl & rest & Er & _ & _ & Er' & Ea')]); [auto|].
    intros [(dd & Hin & H1 & H2)|(v & t & H & _)]; [|rewrite Ea' in H; discriminate].
    left. exists dd. split; [|auto]. apply in_rev. rewrite Er. apply in_or_app. right. rewrite <- Er'. now apply in_rev in Hin.
  Qed.

  (* everything the package was assigned before [g] is kept by the backtrack: its term before [g] is unchanged *)
  Lemma backtrack_pa_term_before Lv lvl g (a : pa) oa :
    pa_ok lvl a -> backtrack_pa Lv a = Good oa ->
    (forall g' l', evt a g' l' -> g' < g -> l' <= Lv) ->
    match oa with Some a' => term_before g a' = term_before g a | None => term_before g a = None end.
  Proof.
    intros (K1 & K2 & K3 & K4) E Hev. apply backtrack_pa_cases in E.
    assert (Hlate : forall d, In d (derivs a) -> Lv < d_level d -> g <= d_gidx d).
    { intros d Hin Hlt. destruct (Nat.le_gt_cases g (d_gidx d)) as [|Hc]; [assumption|].
      assert (d_level d <= Lv); [|lia]. apply (Hev (d_gidx d)); [|exact Hc]. left. eauto. }
    assert (Hdec : forall gd v t, ai a = ADecision gd v t -> Lv < highest a -> Nat.ltb gd g = false).
    { intros gd v t Ea Hlt. destruct (Nat.ltb_spec gd g) as [Hc|]; [|reflexivity].
      assert (highest a <= Lv); [|lia]. apply (Hev gd); [|exact Hc]. right. eauto. }
    destruct oa as [a'|].
    - destruct E as (_ & [[-> _]|(Hh & pre & dl & rest & Er & Hpre & Hdl & Er' & Ea')]); [reflexivity|].
      unfold term_before at 1. rewrite Ea'. unfold der_before. rewrite Er'.
      assert (Hd : der_before g (derivs a) = hd_acc (dwge g (dl :: rest))).
      { unfold der_before. rewrite Er. rewrite dwge_app_drop; [reflexivity|]. rewrite Forall_forall in *. intros d Hd.
        apply Hlate; [|now apply Hpre]. apply in_rev. rewrite Er. apply in_or_app. now left. }
      unfold term_before. destruct (ai a) as [gd v t|t] eqn:Ea; [|now rewrite Hd].
      rewrite (Hdec gd v t eq_refl Hh). now rewrite Hd.
    - assert (Hd : der_before g (derivs a) = None).
      { unfold der_before. rewrite dwge_all; [reflexivity|]. apply Forall_forall. intros d Hd. apply in_rev in Hd.
        apply Hlate; [exact Hd|]. pose proof (mono_ge _ _ (smallest a) K3 (le_n _)) as Hm. rewrite Forall_forall in Hm.
        specialize (Hm _ Hd). cbn in Hm. lia. }
      unfold term_before. destruct (ai a) as [gd v t|t] eqn:Ea; [|exact Hd].
      rewrite (Hdec gd v t eq_refl ltac:(lia)). exact Hd.
  Qed.

  Lemma backtrack_asg_good Lv (m : list (pkg * pa)) : forall m' q a,
    backtrack_asg Lv m = Good m' -> In (q, a) m -> exists oa, backtrack_pa Lv a = Good oa.
  Proof.
    induction m as [|[p b] m IH]; intros m' q a; cbn [backtrack_asg]; [intros _ []|].
    unfold bind. destruct (backtrack_pa Lv b) as [ob|] eqn:Eb; [|discriminate].
    destruct (backtrack_asg Lv m) as [r'|] eqn:Er; [|discriminate]. intros _ [H|H].
    - injection H as <- <-. eauto.
    - eapply IH; eauto.
  Qed.

  Section Backtrack.
    Variables (p p' : psol) (Lv : nat).
    Hypothesis Hl : layout p.
    Hypothesis E : ps_backtrack p Lv = Good p'.

    Lemma ps_backtrack_gidx : next_gidx p' = next_gidx p.
    Proof.
      revert E. unfold ps_backtrack, bind. destruct (backtrack_asg Lv (assignments p)); [|discriminate].
      intros H. now injection H as <-.
    Qed.

    Lemma ps_backtrack_get x :
      exists oa, get x (assignments p') = oa
        /\ match get x (assignments p) with
           | Some a => backtrack_pa Lv a = Good oa
           | None => oa = None
           end.
    Proof.
      destruct (ps_backtrack_asg _ _ _ E) as (_ & _ & Ea).
      rewrite (backtrack_asg_get Lv _ _ x (lay_keys p Hl) Ea).
      destruct (get x (assignments p)) as [a|] eqn:Eg; [|eauto].
      destruct (backtrack_asg_good Lv _ _ x a Ea (get_In _ _ _ Eg)) as (oa & Hoa). rewrite Hoa. eauto.
    Qed.

    Lemma ps_backtrack_get_some x a' :
      get x (assignments p') = Some a' -> exists a, get x (assignments p) = Some a /\ backtrack_pa Lv a = Good (Some a').
    Proof.
      destruct (ps_backtrack_get x) as (oa & <- & H). intros Eo. rewrite Eo in H.
      destruct (get x (assignments p)) as [a|]; [eauto|discriminate].
    Qed.

    Lemma lookup_before_backtrack g :
      (forall y b g' l', get y (assignments p) = Some b -> evt b g' l' -> g' < g -> l' <= Lv) ->
      forall y, lookup_before g (assignments p') y = lookup_before g (assignments p) y.
    Proof.
      intros Hev y. unfold lookup_before. destruct (ps_backtrack_get y) as (oa & -> & H).
      destruct (get y (assignments p)) as [b|] eqn:Eg; [|now subst oa].
      pose proof (backtrack_pa_term_before Lv _ g b oa (layout_get_ok p y b Hl Eg) H (fun g' l' => Hev y b g' l' Eg)) as Ht.
      destruct oa; [exact Ht|now rewrite Ht].
    Qed.

    Lemma kinv_backtrack : kinv p -> kinv p'.
    Proof.
      intros [K1 K2]. split.
      - intros x a' g l Hg He. rewrite ps_backtrack_gidx. destruct (ps_backtrack_get_some x a' Hg) as (a & Hga & Hb).
        eapply K1; [exact Hga|]. eapply backtrack_pa_evt; eauto.
      - intros x1 a1 g1 l1 x2 a2 g2 l2 Hg1 He1 Hg2 He2.
        destruct (ps_backtrack_get_some _ _ Hg1) as (b1 & Hb1 & Hk1). destruct (ps_backtrack_get_some _ _ Hg2) as (b2 & Hb2 & Hk2).
        eapply K2; [exact Hb1|eapply backtrack_pa_evt; eauto|exact Hb2|eapply backtrack_pa_evt; eauto].
    Qed.
  End Backtrack.
End Reach1.
