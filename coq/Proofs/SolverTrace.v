(* C13 / C07 (model side): the run is a function of the consumed prefix of the provider trace; error
   outcomes come from an error answer of the matching callback and carry its arguments. *)
From Coq Require Import List NArith ZArith Bool Lia.
From PG Require Import Model.VS Model.Term Model.Solver.
Import ListNotations.

Section Trace.
  Context {VS Vr : Type} (O : VSOps VS Vr) (veqb : Vr -> Vr -> bool).
  Notation event := (@event VS Vr).
  Notation outcome := (@outcome VS Vr).

  Definition is_mismatch (o : outcome) : bool := match o with OMismatch _ _ => true | _ => false end.

  Lemma do_prioritize_app cands : forall q (tr : list event) n tr2,
    match do_prioritize O cands q tr n with
    | inl (q', tr', n') => do_prioritize O cands q (tr ++ tr2) n = inl (q', tr' ++ tr2, n')
    | inr o => is_mismatch o = true
    end.
  Proof.
    induction cands as [|[p s] cands IH]; intros q tr n tr2; cbn [do_prioritize]; [reflexivity|].
    destruct tr as [|[| p' s' prio | |] tr']; try reflexivity. cbn [app].
    destruct (N.eqb p p' && vs_eqb O s s'); [apply IH|reflexivity].
  Qed.

  (* once the outcome is determined, further events are irrelevant: no further call is made, and the
     whole result is a function of the consumed prefix *)
  Lemma resolve_loop_prefix fuel : forall st next added (tr : list event) n log tr2,
    is_mismatch (fst (fst (fst (resolve_loop O veqb fuel st next added tr n log)))) = false ->
    resolve_loop O veqb fuel st next added (tr ++ tr2) n log = resolve_loop O veqb fuel st next added tr n log.
  Proof.
    induction fuel as [|fuel IH]; intros st next added tr n log tr2; cbn [resolve_loop]; [reflexivity|].
    destruct tr as [|[ok| | |] tr1]; cbn [app fst is_mismatch]; try discriminate.
    destruct ok; cbn [negb]; [|reflexivity].
    destruct (unit_propagation O (S fuel) st [next]) as [[st1|st1 id]|[|s]]; try reflexivity.
    pose proof (do_prioritize_app (pick_candidates (ps st1)) (queue (ps st1)) tr1 (S n) tr2) as Hp.
    destruct (do_prioritize O (pick_candidates (ps st1)) (queue (ps st1)) tr1 (S n)) as [[[q tr2'] n2]|o].
    2:{ cbn [fst]. intros H. congruence. }
    rewrite Hp. destruct (queue_max q) as [mx|]; [|reflexivity].
    destruct tr2' as [|[| |p s ans|] tr3]; cbn [app fst is_mismatch]; try discriminate.
    destruct (get p q) as [[prio qs]|]; [|reflexivity].
    destruct (negb (Z.eqb prio mx)); [reflexivity|].
    destruct (term_for _ p) as [[cur|cur]|]; try reflexivity.
    destruct (negb (vs_eqb O s cur)); cbn [fst is_mismatch]; [discriminate|].
    destruct ans as [v| |]; [| |reflexivity].
    - destruct (negb (t_contains O (Pos cur) v)); [reflexivity|].
      destruct (added_has veqb added p v).
      + unfold res_out. destruct (add_decision O _ p v); [apply IH|reflexivity].
      + destruct tr3 as [|[| | |p' v' dans] tr4]; cbn [app fst is_mismatch]; try discriminate.
        destruct (negb (N.eqb p p' && veqb v v')); cbn [fst is_mismatch]; [discriminate|].
        destruct dans as [deps|m|]; [| |reflexivity].
        * unfold res_out. destruct (add_incompatibility_from_dependencies O _ p v deps) as [[st3 range]|]; [|reflexivity].
          destruct (add_version O (ps st3) p v range (store st3)); [apply IH|reflexivity].
        * unfold res_out. destruct (add_incompatibility O _ (custom_version O p v m)); [apply IH|reflexivity].
    - destruct (no_versions p (Pos cur)); [|reflexivity].
      unfold res_out. destruct (add_incompatibility O _ i); [apply IH|reflexivity].
  Qed.

  Theorem resolve_prefix fuel r v (tr tr2 : list event) :
    is_mismatch (fst (fst (fst (resolve O veqb fuel r v tr)))) = false ->
    resolve O veqb fuel r v (tr ++ tr2) = resolve O veqb fuel r v tr.
  Proof. apply resolve_loop_prefix. Qed.

  (* where error outcomes come from *)
  Definition outcome_explained (tr : list event) (o : outcome) : Prop :=
    match o with
    | OErrCancel => In (EvCancel false) tr
    | OErrChoose => exists p s, In (EvChoose p s CErr) tr
    | OErrDeps p v => In (EvDeps p v DErr) tr
    | OFailure FIncompatibleVersion => exists p s v, In (EvChoose p s (CSome v)) tr /\ vs_contains O s v = false
    | _ => True
    end.

  Lemma explained_cons e tr o : outcome_explained tr o -> outcome_explained (e :: tr) o.
  Proof.
    destruct o as [| | | |p v|[|]| | | |]; cbn; auto.
    - intros (p & s & H). eauto.
    - intros (p & s & v & H & C). exists p, s, v. auto.
  Qed.

  Lemma do_prioritize_suffix cands : forall q (tr : list event) n q' tr' n',
    do_prioritize O cands q tr n = inl (q', tr', n') -> exists pre, tr = pre ++ tr'.
  Proof.
    induction cands as [|[p s] cands IH]; intros q tr n q' tr' n'; cbn [do_prioritize].
    - intros H. injection H as <- <- <-. now exists [].
    - destruct tr as [|[| p' s' prio | |] tr0]; try discriminate.
      destruct (N.eqb p p' && vs_eqb O s s'); [|discriminate].
      intros H. destruct (IH _ _ _ _ _ _ H) as (pre & ->). now exists (EvPrioritize p' s' prio :: pre).
  Qed.

  Lemma explained_app pre tr o : outcome_explained tr o -> outcome_explained (pre ++ tr) o.
  Proof. induction pre; cbn [app]; auto using explained_cons. Qed.

  Hypothesis vs_eqb_eq : forall a b, vs_eqb O a b = true -> a = b.
  Hypothesis veqb_eq : forall a b, veqb a b = true -> a = b.

  Lemma resolve_loop_explained fuel : forall st next added (tr : list event) n log,
    outcome_explained tr (fst (fst (fst (resolve_loop O veqb fuel st next added tr n log)))).
  Proof.
    induction fuel as [|fuel IH]; intros st next added tr n log; cbn [resolve_loop]; [exact I|].
    destruct tr as [|[ok| | |] tr1]; cbn [fst]; try exact I.
    destruct ok; cbn [negb]; [|cbn; now left].
    destruct (unit_propagation O (S fuel) st [next]) as [[st1|st1 id]|[|s]]; cbn [fst]; try exact I.
    2:{ destruct (build_derivation_tree (store st1) id); exact I. }
    destruct (do_prioritize O (pick_candidates (ps st1)) (queue (ps st1)) tr1 (S n)) as [[[q tr2] n2]|o] eqn:Ep.
    2:{ pose proof (do_prioritize_app (pick_candidates (ps st1)) (queue (ps st1)) tr1 (S n) []) as H.
        rewrite Ep in H. cbn [fst]. destruct o; try discriminate. exact I. }
    destruct (do_prioritize_suffix _ _ _ _ _ _ _ Ep) as (pre & ->).
    apply explained_cons. apply explained_app.
    destruct (queue_max q) as [mx|]; [|unfold res_out; destruct (extract_solution (ps st1)); exact I].
    destruct tr2 as [|[| |p s ans|] tr3]; cbn [fst]; try exact I.
    destruct (get p q) as [[prio qs]|]; [|exact I].
    destruct (negb (Z.eqb prio mx)); [exact I|].
    destruct (term_for _ p) as [[cur|cur]|]; try exact I.
    destruct (vs_eqb O s cur) eqn:Es; cbn [negb fst]; [|exact I]. apply vs_eqb_eq in Es. subst cur.
    destruct ans as [v| |].
    - destruct (t_contains O (Pos s) v) eqn:Ec; cbn [negb].
      + destruct (added_has veqb added p v).
        * unfold res_out. destruct (add_decision O _ p v); [|exact I]. apply explained_cons. apply IH.
        * destruct tr3 as [|[| | |p' v' dans] tr4]; cbn [fst]; try exact I.
          destruct (N.eqb_spec p p') as [<-|]; cbn [andb negb fst]; [|exact I].
          destruct (veqb v v') eqn:Ev; cbn [negb fst]; [|exact I]. apply veqb_eq in Ev. subst v'.
          destruct dans as [deps|m|].
          -- unfold res_out. destruct (add_incompatibility_from_dependencies O _ p v deps) as [[st3 range]|]; [|exact I].
             destruct (add_version O (ps st3) p v range (store st3)); [|exact I].
             apply explained_cons, explained_cons. apply IH.
          -- unfold res_out. destruct (add_incompatibility O _ (custom_version O p v m)); [|exact I].
             apply explained_cons, explained_cons. apply IH.
          -- cbn. right. now left.
      + cbn. exists p, s, v. split; [now left|exact Ec].
    - destruct (no_versions p (Pos s)); [|exact I].
      unfold res_out. destruct (add_incompatibility O _ i); [|exact I]. apply explained_cons. apply IH.
    - cbn. exists p, s. now left.
  Qed.

  Theorem resolve_outcome_explained fuel r v (tr : list event) :
    outcome_explained tr (fst (fst (fst (resolve O veqb fuel r v tr)))).
  Proof. apply resolve_loop_explained. Qed.
End Trace.
