(* Lemmas for C20 (SemanticVersion). *)
From PG Require Import Model.Text Model.SemVer.
From Coq Require Import Lia.
From Coq Require Decimal DecimalN.
Open Scope N_scope.

Arguments N.add : simpl never.
Arguments N.mul : simpl never.
Arguments N.sub : simpl never.
Arguments N.leb : simpl never.
Arguments N.ltb : simpl never.
Arguments N.eqb : simpl never.

(* ---------- split_dot ---------- *)

Definition dotfree (s : text) : Prop := Forall (fun c => c <> 46) s.

Lemma split_dot_aux_dotfree cur s :
  dotfree s -> split_dot_aux cur s = [rev cur ++ s].
Proof.
  revert cur; induction s as [|c r IH]; intros cur H; cbn [split_dot_aux].
  - now rewrite app_nil_r.
  - inversion H as [|? ? Hc Hr]; subst.
    destruct (N.eqb_spec c 46) as [->|_]; [congruence|].
    rewrite IH by assumption. cbn [rev]. now rewrite <- app_assoc.
Qed.

Lemma split_dot_aux_app cur a r :
  dotfree a -> split_dot_aux cur (a ++ 46 :: r) = (rev cur ++ a) :: split_dot_aux [] r.
Proof.
  revert cur; induction a as [|c a IH]; intros cur H; cbn [app split_dot_aux].
  - rewrite N.eqb_refl. now rewrite app_nil_r.
  - inversion H as [|? ? Hc Ha]; subst.
    destruct (N.eqb_spec c 46) as [->|_]; [congruence|].
    rewrite IH by assumption. cbn [rev]. now rewrite <- app_assoc.
Qed.

Lemma split_dot_three a b c :
  dotfree a -> dotfree b -> dotfree c ->
  split_dot (a ++ [46] ++ b ++ [46] ++ c) = [a; b; c].
Proof.
  intros Ha Hb Hc. unfold split_dot. cbn [app].
  rewrite split_dot_aux_app by assumption. cbn [rev app].
  rewrite split_dot_aux_app by assumption. cbn [rev app].
  now rewrite split_dot_aux_dotfree by assumption.
Qed.

(* characterisation of split: the parts are dot-free and joining them with '.' gives the input back *)
Lemma split_dot_aux_spec cur s :
  Forall (fun c => c <> 46) cur ->
  Forall dotfree (split_dot_aux cur s) /\ join [46] (split_dot_aux cur s) = rev cur ++ s
  /\ split_dot_aux cur s <> [].
Proof.
  revert cur; induction s as [|c r IH]; intros cur Hcur; cbn [split_dot_aux].
  - repeat split; [|cbn; now rewrite app_nil_r|discriminate].
    constructor; [|constructor]. unfold dotfree. now apply Forall_rev.
  - destruct (N.eqb_spec c 46) as [->|Hc].
    + destruct (IH [] (Forall_nil _)) as (H1 & H2 & H3). repeat split; [| |discriminate].
      * constructor; [|assumption]. unfold dotfree. now apply Forall_rev.
      * destruct (split_dot_aux [] r) eqn:E; [congruence|].
        cbn [join]. cbn [join] in H2. rewrite H2. reflexivity.
    + destruct (IH (c :: cur)) as (H1 & H2 & H3); [now constructor|].
      repeat split; try assumption. rewrite H2. cbn [rev]. now rewrite <- app_assoc.
Qed.

Lemma split_dot_spec s :
  Forall dotfree (split_dot s) /\ join [46] (split_dot s) = s /\ split_dot s <> [].
Proof. exact (split_dot_aux_spec [] s (Forall_nil _)). Qed.

(* ---------- decimal digits ---------- *)

Definition digits (s : text) : Prop := Forall (fun c => is_digit c = true) s.

(* unchecked Horner value *)
Fixpoint horner (acc : N) (l : text) : N :=
  match l with [] => acc | c :: r => horner (acc * 10 + (c - 48)) r end.

Lemma horner_ge acc l : acc <= horner acc l.
Proof. revert acc; induction l as [|c r IH]; intros acc; cbn [horner]; [lia|].
  specialize (IH (acc * 10 + (c - 48))). lia. Qed.

Lemma parse_digits_ok acc l :
  digits l -> horner acc l <= u32_max -> parse_digits acc l = inl (horner acc l).
Proof.
  revert acc; induction l as [|c r IH]; intros acc Hd Hb; cbn [parse_digits horner] in *; [reflexivity|].
  inversion Hd as [|? ? Hc Hr]; subst. rewrite Hc.
  pose proof (horner_ge (acc * 10 + (c - 48)) r) as Hge.
  unfold in_u32. destruct (N.leb_spec (acc * 10 + (c - 48)) u32_max); [|lia].
  now apply IH.
Qed.

Lemma uint_bytes_digits d : digits (uint_bytes d).
Proof. induction d; cbn [uint_bytes]; constructor; try assumption; reflexivity. Qed.

Lemma horner_acc_pos d p :
  horner (Npos p) (uint_bytes d) = Npos (Pos.of_uint_acc d p).
Proof.
  revert p; induction d as [|d IH|d IH|d IH|d IH|d IH|d IH|d IH|d IH|d IH|d IH]; intros p;
    cbn [uint_bytes horner Pos.of_uint_acc]; [reflexivity|..];
    rewrite <- IH; f_equal; lia.
Qed.

Lemma horner_of_uint d : horner 0 (uint_bytes d) = N.of_uint d.
Proof.
  induction d as [|d IH|d IH|d IH|d IH|d IH|d IH|d IH|d IH|d IH|d IH];
    cbn [uint_bytes horner]; [reflexivity| |..].
  - replace (0 * 10 + (48 - 48)) with 0 by lia. exact IH.
  - replace (0 * 10 + (49 - 48)) with 1 by lia. apply horner_acc_pos.
  - replace (0 * 10 + (50 - 48)) with 2 by lia. apply horner_acc_pos.
  - replace (0 * 10 + (51 - 48)) with 3 by lia. apply horner_acc_pos.
  - replace (0 * 10 + (52 - 48)) with 4 by lia. apply horner_acc_pos.
  - replace (0 * 10 + (53 - 48)) with 5 by lia. apply horner_acc_pos.
  - replace (0 * 10 + (54 - 48)) with 6 by lia. apply horner_acc_pos.
  - replace (0 * 10 + (55 - 48)) with 7 by lia. apply horner_acc_pos.
  - replace (0 * 10 + (56 - 48)) with 8 by lia. apply horner_acc_pos.
  - replace (0 * 10 + (57 - 48)) with 9 by lia. apply horner_acc_pos.
Qed.

Lemma horner_dec n : horner 0 (dec_N n) = n.
Proof. unfold dec_N. rewrite horner_of_uint. apply DecimalN.Unsigned.of_to. Qed.

Lemma dec_N_digits n : digits (dec_N n).
Proof. apply uint_bytes_digits. Qed.

Lemma dec_N_nonempty n : dec_N n <> [].
Proof.
  destruct n as [|p]; [discriminate|]. intro E.
  pose proof (horner_dec (Npos p)) as H. rewrite E in H. discriminate.
Qed.

Lemma digit_not_dot c : is_digit c = true -> c <> 46.
Proof. unfold is_digit. intros H ->. discriminate. Qed.

Lemma digits_dotfree s : digits s -> dotfree s.
Proof. unfold digits, dotfree. apply Forall_impl. exact digit_not_dot. Qed.

Lemma parse_u32_digits s :
  digits s -> s <> [] -> parse_u32 s = parse_digits 0 s.
Proof.
  intros Hd Hne. destruct s as [|c r]; [congruence|].
  inversion Hd as [|? ? Hc Hr]; subst.
  assert (c <> 43 /\ c <> 45) as [H1 H2].
  { unfold is_digit in Hc. split; intros ->; discriminate. }
  cbn [parse_u32]. destruct r as [|c' r'].
  - destruct (N.eqb_spec c 43); [congruence|]. destruct (N.eqb_spec c 45); [congruence|]. reflexivity.
  - destruct (N.eqb_spec c 43); [congruence|]. reflexivity.
Qed.

Lemma parse_u32_dec n : n <= u32_max -> parse_u32 (dec_N n) = inl n.
Proof.
  intros Hn. rewrite parse_u32_digits by (apply dec_N_digits || apply dec_N_nonempty).
  rewrite parse_digits_ok; rewrite ?horner_dec; auto using dec_N_digits.
Qed.

(* ---------- print / parse ---------- *)

Lemma sv_print_parse v : sv_in_u32 v = true -> sv_parse (sv_display v) = ParseOk v.
Proof.
  destruct v as [ma mi pa]. unfold sv_in_u32, in_u32, sv_display, sv_parse. cbn [major minor patch].
  intros H. apply andb_prop in H as [H Hp]. apply andb_prop in H as [Hma Hmi].
  apply N.leb_le in Hma, Hmi, Hp.
  rewrite split_dot_three by (apply digits_dotfree, dec_N_digits).
  now rewrite !parse_u32_dec by assumption.
Qed.

(* ---------- parse_u32: grammar ---------- *)

(* Rust's grammar for u32: an optional '+', then at least one ASCII digit; value must fit *)
Lemma parse_digits_spec acc l :
  acc <= u32_max ->
  match parse_digits acc l with
  | inl n => digits l /\ n = horner acc l /\ n <= u32_max
  | inr IInvalidDigit =>
      exists pre c post, l = pre ++ c :: post /\ digits pre /\ is_digit c = false
                         /\ horner acc pre <= u32_max
  | inr IPosOverflow =>
      exists pre c post, l = pre ++ c :: post /\ digits (pre ++ [c])
                         /\ horner acc pre <= u32_max /\ u32_max < horner acc (pre ++ [c])
  | inr IEmpty => False
  end.
Proof.
  revert acc; induction l as [|c r IH]; intros acc Hacc; cbn [parse_digits].
  - repeat split; [constructor|assumption].
  - destruct (is_digit c) eqn:Hc.
    + unfold in_u32. destruct (N.leb_spec (acc * 10 + (c - 48)) u32_max) as [Hle|Hgt].
      * specialize (IH _ Hle). destruct (parse_digits (acc * 10 + (c - 48)) r) as [n|[]].
        -- destruct IH as (Hd & Hn & Hb). repeat split; try assumption. now constructor.
        -- contradiction.
        -- destruct IH as (pre & c' & post & -> & Hd & Hc' & Hb).
           exists (c :: pre), c', post. repeat split; try assumption. now constructor.
        -- destruct IH as (pre & c' & post & -> & Hd & Hb & Hov).
           exists (c :: pre), c', post. repeat split; try assumption. cbn [app]. now constructor.
      * exists [], c, r. cbn [app horner]. repeat split; try assumption.
        constructor; [assumption|constructor].
    + exists [], c, r. cbn [app horner]. repeat split; try assumption. constructor.
Qed.

Lemma parse_u32_ok_iff s n :
  parse_u32 s = inl n <->
  exists ds, (s = ds \/ s = 43 :: ds) /\ ds <> [] /\ digits ds /\ horner 0 ds = n /\ n <= u32_max.
Proof.
  assert (H0 : 0 <= u32_max) by (unfold u32_max; lia).
  split.
  - intros H. destruct s as [|c r]; [discriminate|]. cbn [parse_u32] in H.
    destruct r as [|c' r'].
    + destruct ((c =? 43) || (c =? 45)) eqn:E; [discriminate|].
      pose proof (parse_digits_spec 0 [c] H0) as S. rewrite H in S. destruct S as (Hd & Hn & Hb).
      exists [c]. repeat split; auto. discriminate.
    + destruct (N.eqb_spec c 43) as [->|Hc].
      * pose proof (parse_digits_spec 0 (c' :: r') H0) as S. rewrite H in S. destruct S as (Hd & Hn & Hb).
        exists (c' :: r'). repeat split; auto. discriminate.
      * pose proof (parse_digits_spec 0 (c :: c' :: r') H0) as S. rewrite H in S.
        destruct S as (Hd & Hn & Hb). exists (c :: c' :: r'). repeat split; auto. discriminate.
  - intros (ds & Hs & Hne & Hd & Hv & Hb). subst n. destruct Hs as [->| ->].
    + rewrite parse_u32_digits by assumption. now rewrite parse_digits_ok by assumption.
    + destruct ds as [|d ds']; [congruence|]. cbn [parse_u32]. rewrite N.eqb_refl.
      now rewrite parse_digits_ok by assumption.
Qed.

(* which error: Empty exactly for the empty string *)
Lemma parse_u32_empty_iff s : parse_u32 s = inr IEmpty <-> s = [].
Proof.
  assert (H0 : 0 <= u32_max) by (unfold u32_max; lia).
  split; [|intros ->; reflexivity].
  destruct s as [|c r]; [reflexivity|]. cbn [parse_u32]. intros H. exfalso.
  destruct r as [|c' r'].
  - destruct ((c =? 43) || (c =? 45)); [discriminate|].
    pose proof (parse_digits_spec 0 [c] H0) as S. now rewrite H in S.
  - destruct (c =? 43).
    + pose proof (parse_digits_spec 0 (c' :: r') H0) as S. now rewrite H in S.
    + pose proof (parse_digits_spec 0 (c :: c' :: r') H0) as S. now rewrite H in S.
Qed.

(* ---------- sv_parse: which variant ---------- *)

Lemma sv_parse_ok_iff s v :
  sv_parse s = ParseOk v <->
  exists a b c, split_dot s = [a; b; c] /\ parse_u32 a = inl (major v)
                /\ parse_u32 b = inl (minor v) /\ parse_u32 c = inl (patch v).
Proof.
  unfold sv_parse. split.
  - intros H. destruct (split_dot s) as [|a [|b' [|c [|? ?]]]]; try discriminate.
    destruct (parse_u32 a) eqn:Ea; [|discriminate].
    destruct (parse_u32 b') eqn:Eb; [|discriminate].
    destruct (parse_u32 c) eqn:Ec; [|discriminate].
    injection H as <-. now exists a, b', c.
  - intros (a & b' & c & -> & -> & -> & ->). now destruct v.
Qed.

Lemma sv_parse_not_three_iff s :
  (exists f, sv_parse s = NotThreeParts f) <-> length (split_dot s) <> 3%nat.
Proof.
  unfold sv_parse. split.
  - intros [f H]. destruct (split_dot s) as [|a [|b' [|c [|? ?]]]]; cbn; try lia.
    destruct (parse_u32 a); [|discriminate]. destruct (parse_u32 b'); [|discriminate].
    destruct (parse_u32 c); discriminate.
  - intros H. destruct (split_dot s) as [|a [|b' [|c [|? ?]]]]; cbn in H; try lia; eauto.
Qed.

Lemma sv_parse_not_three_payload s f : sv_parse s = NotThreeParts f -> f = s.
Proof.
  unfold sv_parse. destruct (split_dot s) as [|a [|b' [|c [|? ?]]]]; try (intros H; now injection H).
  destruct (parse_u32 a); [|discriminate]. destruct (parse_u32 b'); [|discriminate].
  destruct (parse_u32 c); discriminate.
Qed.

(* ParseIntError names the first offending part, with its error *)
Lemma sv_parse_int_error_iff s f p e :
  sv_parse s = ParseIntError f p e <->
  f = s /\ exists parts, split_dot s = parts /\ length parts = 3%nat /\
    exists pre post, parts = pre ++ p :: post
      /\ Forall (fun q => exists n, parse_u32 q = inl n) pre /\ parse_u32 p = inr e.
Proof.
  unfold sv_parse. split.
  - intros H. destruct (split_dot s) as [|a [|b' [|c [|? ?]]]]; try discriminate.
    destruct (parse_u32 a) as [na|ea] eqn:Ea.
    + destruct (parse_u32 b') as [nb|eb] eqn:Eb.
      * destruct (parse_u32 c) as [nc|ec] eqn:Ec; [discriminate|].
        injection H as <- <- <-. split; [reflexivity|]. eexists; split; [reflexivity|]. split; [reflexivity|].
        exists [a; b'], []. repeat split; eauto.
      * injection H as <- <- <-. split; [reflexivity|]. eexists; split; [reflexivity|]. split; [reflexivity|].
        exists [a], [c]. repeat split; eauto.
    + injection H as <- <- <-. split; [reflexivity|]. eexists; split; [reflexivity|]. split; [reflexivity|].
      exists [], [b'; c]. repeat split; eauto.
  - intros (-> & parts & <- & Hlen & pre & post & Hp & Hpre & He).
    destruct (split_dot s) as [|a [|b' [|c [|? ?]]]]; cbn in Hlen; try lia.
    destruct pre as [|x [|y [|z pre']]]; cbn [app] in Hp.
    + injection Hp as <- <-. now rewrite He.
    + injection Hp as <- <- <-. inversion Hpre as [|? ? [n Hn] _]; subst. rewrite Hn. now rewrite He.
    + injection Hp as <- <- <- <-. inversion Hpre as [|? ? [n Hn] Hpre']; subst.
      inversion Hpre' as [|? ? [m Hm] _]; subst. rewrite Hn, Hm. now rewrite He.
    + exfalso. apply (f_equal (@length _)) in Hp. cbn in Hp. rewrite app_length in Hp. cbn in Hp. lia.
Qed.

(* ---------- ordering ---------- *)

Definition sv_lt (u v : semver) : Prop :=
  major u < major v \/ (major u = major v /\ (minor u < minor v \/ (minor u = minor v /\ patch u < patch v))).

Lemma sv_compare_lex u v :
  (sv_compare u v = Eq <-> u = v) /\ (sv_compare u v = Lt <-> sv_lt u v) /\ (sv_compare u v = Gt <-> sv_lt v u).
Proof.
  destruct u as [a b c], v as [a' b' c']. unfold sv_compare, sv_lt. cbn [major minor patch].
  destruct (N.compare_spec a a'); [subst; destruct (N.compare_spec b b'); [subst; destruct (N.compare_spec c c')|..]|..];
    repeat split; intros HH; try discriminate; try congruence; try lia;
    try (injection HH; intros; subst; lia).
Qed.

(* ---------- tuples ---------- *)

Lemma sv_tuple_inverse :
  (forall v, sv_of_tuple (sv_to_tuple v) = v) /\ (forall t, sv_to_tuple (sv_of_tuple t) = t).
Proof. split; [now intros []|now intros [[] ?]]. Qed.

(* ---------- bumps ---------- *)

Lemma sv_bump_spec v :
  (patch v < u32_max ->
     exists v', bump_patch v = Some v' /\ sv_lt v v' /\ major v' = major v /\ minor v' = minor v
                /\ patch v' = patch v + 1 /\ (sv_in_u32 v = true -> sv_in_u32 v' = true)) /\
  (minor v < u32_max ->
     exists v', bump_minor v = Some v' /\ sv_lt v v' /\ major v' = major v /\ minor v' = minor v + 1
                /\ patch v' = 0 /\ (sv_in_u32 v = true -> sv_in_u32 v' = true)) /\
  (major v < u32_max ->
     exists v', bump_major v = Some v' /\ sv_lt v v' /\ major v' = major v + 1 /\ minor v' = 0
                /\ patch v' = 0 /\ (sv_in_u32 v = true -> sv_in_u32 v' = true)) /\
  (u32_max <= patch v -> bump_patch v = None) /\
  (u32_max <= minor v -> bump_minor v = None) /\
  (u32_max <= major v -> bump_major v = None).
Proof.
  destruct v as [a b' c]. unfold bump_patch, bump_minor, bump_major, sv_lt, sv_in_u32, in_u32.
  cbn [major minor patch]. repeat split; intros H.
  - destruct (N.ltb_spec c u32_max); [|lia]. eexists; split; [reflexivity|]. cbn [major minor patch].
    repeat split; try lia. intros H1. apply andb_prop in H1 as [H1 H3]. rewrite H1. cbn. apply N.leb_le. lia.
  - destruct (N.ltb_spec b' u32_max); [|lia]. eexists; split; [reflexivity|]. cbn [major minor patch].
    repeat split; try lia. intros H1. apply andb_prop in H1 as [H1 H3]. apply andb_prop in H1 as [H1 H2].
    rewrite H1. cbn. apply andb_true_intro; split; apply N.leb_le; unfold u32_max in *; lia.
  - destruct (N.ltb_spec a u32_max); [|lia]. eexists; split; [reflexivity|]. cbn [major minor patch].
    repeat split; try lia. intros _. apply andb_true_intro; split; [apply andb_true_intro; split|];
      apply N.leb_le; unfold u32_max in *; lia.
  - destruct (N.ltb_spec c u32_max); [lia|reflexivity].
  - destruct (N.ltb_spec b' u32_max); [lia|reflexivity].
  - destruct (N.ltb_spec a u32_max); [lia|reflexivity].
Qed.
