From Coq Require Import List Bool.
From PG Require Import Model.SmallVec.
Import ListNotations.

Lemma list_eqb_hash (T H : Type) (teqb : T -> T -> bool) (h : T -> H) :
  (forall x y, teqb x y = true -> h x = h y) ->
  forall a b, list_eqb teqb a b = true -> length a = length b /\ map h a = map h b.
Proof.
  intros Hh. induction a as [|x a IH]; intros [|y b]; cbn; try discriminate; [auto|].
  intros E. apply andb_prop in E as [E1 E2]. destruct (IH _ E2) as [L M].
  split; [now f_equal|]. f_equal; auto.
Qed.

Lemma sv_hash_respects_eq (T : Type) (teqb : T -> T -> bool) (H : Type) (hash_elt : T -> H) :
  (forall x y, teqb x y = true -> hash_elt x = hash_elt y) ->
  forall x y : smallvec T, sv_eqb teqb x y = true -> sv_hash_stream hash_elt x = sv_hash_stream hash_elt y.
Proof.
  intros Hh x y E. unfold sv_eqb in E. unfold sv_hash_stream, sv_len.
  destruct (list_eqb_hash T H teqb hash_elt Hh _ _ E) as [L M]. now rewrite L, M.
Qed.

Lemma list_eqb_refl (T : Type) (teqb : T -> T -> bool) :
  (forall a, teqb a a = true) -> forall l, list_eqb teqb l l = true.
Proof. intros Hr. induction l; cbn; [reflexivity|]. now rewrite Hr, IHl. Qed.

Lemma sv_eqb_slice (T : Type) (teqb : T -> T -> bool) (x y : smallvec T) :
  sv_as_slice x = sv_as_slice y -> (forall a, teqb a a = true) -> sv_eqb teqb x y = true.
Proof. intros E Hr. unfold sv_eqb. rewrite E. now apply list_eqb_refl. Qed.

Lemma sv_push_pop_slice (T : Type) (x : smallvec T) (t : T) :
  sv_as_slice (sv_push x t) = sv_as_slice x ++ [t]
  /\ (forall y o, sv_pop x = (y, o) ->
        match o with None => sv_as_slice x = [] /\ sv_as_slice y = []
                   | Some t' => sv_as_slice x = sv_as_slice y ++ [t'] end).
Proof.
  split.
  - destruct x; reflexivity.
  - intros y o E. destruct x as [|a|a b|v]; cbn in E.
    + injection E as <- <-. auto.
    + injection E as <- <-. reflexivity.
    + injection E as <- <-. reflexivity.
    + destruct (rev v) as [|t' r] eqn:Ev.
      * injection E as <- <-. cbn. split; [|reflexivity].
        rewrite <- (rev_involutive v), Ev. reflexivity.
      * injection E as <- <-. cbn. rewrite <- (rev_involutive v), Ev. reflexivity.
Qed.
