(* C05 (model side), part 1: panic-freedom of the solver model -- vocabulary and the local facts.
   - the extra law [singleton_atomic] (a singleton contains no point of the universe other than its version);
   - term facts over the whole universe U ([tleU]) and their consequences for decided packages ([exact_rel]:
     against [exact v] every term is Satisfied or Contradicted, never Inconclusive);
   - [relation]: the package of [RAlmost] is a key of the incompatibility whose term is not decided;
   - no stored incompatibility has an "any" term ([noany]);
   - the store/index steps (merge_dependents, find_merge, merge_incompatibility, add_incompatibility,
     merge_range, add_incompatibility_from_dependencies) never panic on a justified store;
   - the index of incompatibilities ([ixinv]);
   - add_decision / add_derivation / ps_backtrack never panic under their local preconditions ([pa_first]). *)
From Coq Require Import List NArith ZArith Bool Lia PeanoNat.
From PG Require Import Model.VS Model.Term Model.Solver Model.Registry Proofs.VSLaws Proofs.TermProofs
  Proofs.AssocProofs Proofs.SolverSem Proofs.SolverStore Proofs.SolverQueue Proofs.SolverSound1 Proofs.SolverSound2
  Proofs.SolverSound Proofs.SolverReach1 Proofs.SolverReach2.
Import ListNotations.

(* the extra law: over the semantic universe, a singleton contains only the point of its version *)
Definition singleton_atomic {VS Vr : Type} (O : VSOps VS Vr) (L : VSLawful O) : Prop :=
  forall v u, mem O L (vs_singleton O v) u = true -> u = pt O L v.

(* the panic sites that are NOT excluded by this development (empty = all excluded) *)
Definition remaining : list panic_site := [].
Definition Bad (s : panic_site) : Prop := In s remaining.

(* a computation that does not panic (outside [remaining]) and whose result satisfies [P] *)
Definition okres {A} (r : res A) (P : A -> Prop) : Prop :=
  match r with Good a => P a | Panic s => Bad s end.

Lemma okres_bind {A B} (r : res A) (f : A -> res B) (P : A -> Prop) (Q : B -> Prop) :
  okres r P -> (forall a, r = Good a -> P a -> okres (f a) Q) -> okres (bind r f) Q.
Proof. destruct r as [a|s]; cbn; [intros H K; now apply K|auto]. Qed.

Lemma okres_weaken {A} (r : res A) (P Q : A -> Prop) : okres r P -> (forall a, r = Good a -> P a -> Q a) -> okres r Q.
Proof. destruct r as [a|s]; cbn; [intros H K; now apply K|auto]. Qed.

Lemma okres_good {A} (r : res A) (P : A -> Prop) : (exists a, r = Good a /\ P a) -> okres r P.
Proof. intros (a & -> & H). exact H. Qed.

Section NoPanic1.
  Context {VS Vr : Type} (O : VSOps VS Vr) (L : VSLawful O).
  Notation tm := (term VS).
  Notation pa := (@pa VS Vr).
  Notation dated := (@dated VS).
  Notation psol := (@psol VS Vr).
  Notation state := (@state VS Vr).
  Notation incompat := (@incompat VS Vr).
  Notation twf := (twf O L).
  Notation twf_all := (twf_all O L).
  Notation ps_wf := (ps_wf O L).
  Notation tle := (tle O).
  Notation wfs := (wf O L).

  (* ---------------------------------------------------------------- terms over the whole universe *)
  Definition tleU (t u : tm) : Prop := forall c, tden O L t c = true -> tden O L u c = true.

  Lemma tleU_refl t : tleU t t.
  Proof. intros c H. exact H. Qed.

  Lemma tleU_trans t u w : tleU t u -> tleU u w -> tleU t w.
  Proof. intros H1 H2 c H. auto. Qed.

  Lemma tleU_subset t u : twf t -> twf u -> (t_subset_of O t u = true <-> tleU t u).
  Proof. intros Ht Hu. exact (t_subset_of_spec O L t u Ht Hu). Qed.

  Lemma tleU_tle t u : twf t -> twf u -> tleU t u -> tle t u.
  Proof. intros Ht Hu H c. rewrite !(sat_tden O L) by assumption. apply H. Qed.

  Lemma tleU_inter_l t u : twf t -> twf u -> tleU (t_intersection O t u) t.
  Proof. intros Ht Hu c. rewrite (tden_intersection O L) by assumption. intros H. now apply andb_prop in H. Qed.

  Lemma tleU_inter tx t1 t2 : twf t1 -> twf t2 -> tleU tx t1 -> tleU tx t2 -> tleU tx (t_intersection O t1 t2).
  Proof. intros W1 W2 H1 H2 c Hc. rewrite (tden_intersection O L) by assumption. now rewrite (H1 c Hc), (H2 c Hc). Qed.

  Lemma tleU_union_l tx t1 t2 : twf t1 -> twf t2 -> tleU tx t1 -> tleU tx (t_union O t1 t2).
  Proof. intros W1 W2 H c Hc. rewrite (tden_union O L) by assumption. now rewrite (H c Hc). Qed.

  Lemma rel_satisfied_tleU t tx : twf t -> twf tx -> t_relation_with O t tx = Satisfied -> tleU tx t.
  Proof.
    intros Ht Hx. unfold t_relation_with. destruct (t_subset_of O tx t) eqn:E.
    - intros _. now apply tleU_subset.
    - destruct (t_is_disjoint O t tx); discriminate.
  Qed.

  Lemma tleU_rel_satisfied t tx : twf t -> twf tx -> tleU tx t -> t_relation_with O t tx = Satisfied.
  Proof. intros Ht Hx H. unfold t_relation_with. apply tleU_subset in H; try assumption. now rewrite H. Qed.

  Lemma disjoint_neg_tleU u t : twf u -> twf t -> (t_is_disjoint O u (t_negate t) = true <-> tleU u t).
  Proof.
    intros Hu Ht. rewrite (t_is_disjoint_spec O L u (t_negate t) Hu (twf_negate O L t Ht)). split.
    - intros E c Hc. specialize (E c). rewrite tden_negate, Hc in E. cbn in E. now apply negb_false_iff in E.
    - intros H c. rewrite tden_negate. destruct (tden O L u c) eqn:E; [|reflexivity]. now rewrite (H c E).
  Qed.

  (* a term below [t] is disjoint from anything intersected with the negation of [t] *)
  Lemma tleU_disjoint_inter u t acc :
    twf u -> twf t -> twf acc -> tleU u t -> t_is_disjoint O u (t_intersection O acc (t_negate t)) = true.
  Proof.
    intros Hu Ht Ha H.
    apply (t_is_disjoint_spec O L); [exact Hu|apply (twf_intersection O L); [exact Ha|now apply twf_negate]|].
    intros c. rewrite (tden_intersection O L), tden_negate by (try assumption; now apply twf_negate).
    destruct (tden O L u c) eqn:E; [|reflexivity]. rewrite (H c E). cbn. apply andb_false_r.
  Qed.

  (* anything is disjoint from a term that denotes nothing *)
  Lemma disjoint_of_empty u e : twf u -> twf e -> (forall c, tden O L e c = false) -> t_is_disjoint O u e = true.
  Proof.
    intros Hu He H. apply (t_is_disjoint_spec O L); [exact Hu|exact He|]. intros c. rewrite H. apply andb_false_r.
  Qed.

  (* ---------------------------------------------------------------- atomic singletons *)
  Section Atomic.
    Hypothesis Hat : singleton_atomic O L.

    Lemma tden_exact v c : tden O L (t_exact O v) c = true <-> c = Some (pt O L v).
    Proof.
      destruct c as [u|]; cbn; split; try discriminate.
      - intros H. now rewrite (Hat v u H).
      - intros E. injection E as ->. now apply (mem_singleton O L).
    Qed.

    Lemma exact_tleU v t : twf t -> t_contains O t v = true -> tleU (t_exact O v) t.
    Proof. intros Ht Hc c H. apply tden_exact in H. subst c. now rewrite <- (t_contains_spec O L). Qed.

    Lemma tleU_exact_contains v t : twf t -> tleU (t_exact O v) t -> t_contains O t v = true.
    Proof. intros Ht H. rewrite (t_contains_spec O L) by assumption. apply H. now apply tden_exact. Qed.

    (* against the term of a decided package, a term is satisfied or contradicted: never inconclusive *)
    Lemma exact_rel v t :
      twf t -> t_relation_with O t (t_exact O v) = if t_contains O t v then Satisfied else Contradicted.
    Proof.
      intros Ht. pose proof (twf_exact O L v) as He. destruct (t_contains O t v) eqn:Ec.
      - apply tleU_rel_satisfied; [exact Ht|exact He|now apply exact_tleU].
      - unfold t_relation_with. destruct (t_subset_of O (t_exact O v) t) eqn:Es.
        + apply tleU_subset in Es; [|exact He|exact Ht]. apply tleU_exact_contains in Es; [congruence|exact Ht].
        + assert (Hd : t_is_disjoint O t (t_exact O v) = true).
          { apply (t_is_disjoint_spec O L); [exact Ht|exact He|]. intros c.
            destruct (tden O L (t_exact O v) c) eqn:E; [|apply andb_false_r].
            apply tden_exact in E. subst c. rewrite <- (t_contains_spec O L) by assumption. now rewrite Ec. }
          now rewrite Hd.
    Qed.

    Lemma exact_not_inconclusive v t : twf t -> t_relation_with O t (t_exact O v) <> Inconclusive.
    Proof. intros Ht. rewrite (exact_rel v t Ht). destruct (t_contains O t v); discriminate. Qed.

    (* [exact v] intersected with the negation of a term that contains [v] denotes nothing *)
    Lemma exact_inter_neg_empty v t :
      twf t -> t_contains O t v = true -> forall c, tden O L (t_intersection O (t_exact O v) (t_negate t)) c = false.
    Proof.
      intros Ht Hc c. rewrite (tden_intersection O L), tden_negate by (try apply twf_exact; now apply twf_negate).
      destruct (tden O L (t_exact O v) c) eqn:E; [|reflexivity]. rewrite (exact_tleU v t Ht Hc c E). reflexivity.
    Qed.
  End Atomic.

  (* ---------------------------------------------------------------- relation *)
  (* a package reported by the scan is a key of the incompatibility, and its term is unassigned or inconclusive *)
  Lemma relation_scan_incs (ts : list (pkg * tm)) lk : forall incs l,
    relation_scan O ts lk incs = Some l ->
    forall x, In x l -> In x incs \/
      exists t, In (x, t) ts /\ (lk x = None \/ exists tx, lk x = Some tx /\ t_relation_with O t tx = Inconclusive).
  Proof.
    induction ts as [|[p t] ts IH]; intros incs l; cbn [relation_scan].
    - intros E. injection E as <-. auto.
    - assert (Hother : (lk p = None \/ exists tx, lk p = Some tx /\ t_relation_with O t tx = Inconclusive) ->
                relation_scan O ts lk (incs ++ [p]) = Some l ->
                forall x, In x l -> In x incs \/
                  exists u, In (x, u) ((p, t) :: ts)
                            /\ (lk x = None \/ exists tx, lk x = Some tx /\ t_relation_with O u tx = Inconclusive)).
      { intros Hp E x Hx. destruct (IH _ _ E x Hx) as [Hin|(u & Hu & Hr)].
        - apply in_app_or in Hin. destruct Hin as [Hin|[<-|[]]]; [now left|]. right. exists t. split; [now left|exact Hp].
        - right. exists u. split; [now right|exact Hr]. }
      destruct (lk p) as [tp|] eqn:El; cbn [option_map]; [|apply Hother; now left].
      destruct (t_relation_with O t tp) eqn:Er; [|discriminate|apply Hother; right; eauto].
      intros E x Hx. destruct (IH _ _ E x Hx) as [Hin|(u & Hu & Hr)]; [now left|]. right. exists u. split; [now right|exact Hr].
  Qed.

  Lemma relation_almost_inv (ts : list (pkg * tm)) lk q :
    relation O ts lk = RAlmost q ->
    exists t, In (q, t) ts /\ (lk q = None \/ exists tx, lk q = Some tx /\ t_relation_with O t tx = Inconclusive).
  Proof.
    unfold relation. destruct (relation_scan O ts lk []) as [l|] eqn:E; [|discriminate].
    destruct l as [|x [|y l]]; try discriminate. intros H. injection H as ->.
    destruct (relation_scan_incs _ _ _ _ E q (or_introl eq_refl)) as [[]|H]. exact H.
  Qed.

  Lemma In_get_some {A} (m : list (pkg * A)) x a : In (x, a) m -> exists b, get x m = Some b.
  Proof.
    intros Hin. destruct (get x m) as [b|] eqn:E; [eauto|]. exfalso. apply get_None in E. apply E.
    change x with (fst (x, a)). now apply in_map.
  Qed.

  (* ---------------------------------------------------------------- satisfaction over the universe *)
  Definition sat_nowU (p : psol) (ts : list (pkg * tm)) (exc : option pkg) : Prop :=
    forall x t, In (x, t) ts -> Some x <> exc -> exists tx, term_for p x = Some tx /\ tleU tx t.

  Lemma sat_nowU_now p ts exc : ps_wf p -> twf_all ts -> sat_nowU p ts exc -> sat_now O p ts exc.
  Proof.
    intros Hw Wt H x t Hin Hne. destruct (H x t Hin Hne) as (tx & Hx & Hle). exists tx. split; [exact Hx|].
    apply tleU_tle; [exact (term_for_wf O L _ _ _ Hw Hx)|exact (twf_all_in O L _ _ _ Wt Hin)|exact Hle].
  Qed.

  Lemma relation_sat_nowU (p : psol) (ts : list (pkg * tm)) :
    ps_wf p -> twf_all ts ->
    match relation O ts (term_for p) with
    | RSatisfied => sat_nowU p ts None
    | RAlmost q => sat_nowU p ts (Some q)
    | _ => True
    end.
  Proof.
    intros Hw Wt. unfold relation. destruct (relation_scan O ts (term_for p) []) as [l|] eqn:E; [|exact I].
    destruct (relation_scan_in O _ _ _ _ E) as [_ H].
    assert (Hs : forall x t, In (x, t) ts -> ~ In x l -> exists tx, term_for p x = Some tx /\ tleU tx t).
    { intros x t Hin Hn. destruct (H x t Hin) as [(tx & Hx & Hr)|Hc]; [|contradiction]. exists tx. split; [exact Hx|].
      apply rel_satisfied_tleU; [exact (twf_all_in O L _ _ _ Wt Hin)|exact (term_for_wf O L _ _ _ Hw Hx)|exact Hr]. }
    destruct l as [|q [|y l]]; [| |exact I].
    - intros x t Hin _. apply (Hs x t Hin). intros [].
    - intros x t Hin Hne. apply (Hs x t Hin). intros [->|[]]. now apply Hne.
  Qed.
End NoPanic1.

(* ---------------------------------------------------------------------- the store and the index *)
Section NoPanicStore.
  Context {VS Vr : Type} (O : VSOps VS Vr) (L : VSLawful O) (veqb : Vr -> Vr -> bool).
  Context (reg : registry (VS := VS) (Vr := Vr)) (r : pkg) (rv : Vr).
  Notation tm := (term VS).
  Notation pa := (@pa VS Vr).
  Notation psol := (@psol VS Vr).
  Notation state := (@state VS Vr).
  Notation incompat := (@incompat VS Vr).
  Notation twf := (twf O L).
  Notation twf_all := (twf_all O L).
  Notation wfs := (wf O L).
  Notation ext_ok := (ext_ok O L reg r rv).
  Notation st_ok := (st_ok O L reg r rv).
  Notation full_ok := (full_ok O L reg r rv).
  Notation store_just := (store_just O L reg r rv).

  (* ---------------------------------------------------------------- no "any" term *)
  Definition noany (ts : list (pkg * tm)) : Prop := forall x t, In (x, t) ts -> t <> t_any O.

  Lemma noany_has_any ts : noany ts -> has_any O ts = false.
  Proof.
    intros H. unfold has_any. destruct (existsb _ ts) eqn:E; [|reflexivity]. exfalso.
    apply existsb_exists in E. destruct E as ([x t] & Hin & Ht). cbn in Ht. apply (t_eqb_spec O L) in Ht. exact (H x t Hin Ht).
  Qed.

  Lemma singleton_not_empty v : vs_singleton O v <> vs_empty O.
  Proof.
    intros E. assert (H : mem O L (vs_singleton O v) (pt O L v) = true) by now apply (mem_singleton O L).
    rewrite E, (mem_empty O L) in H. discriminate.
  Qed.

  Lemma noany_single_pos p s : noany [(p, Pos s)].
  Proof. intros x t [E|[]]. injection E as <- <-. discriminate. Qed.

  Lemma noany_not_root : noany (terms (not_root O r rv)).
  Proof. intros x t [E|[]]. injection E as <- <-. unfold t_any. intros H. injection H as H. exact (singleton_not_empty rv H). Qed.

  Lemma noany_from_dep p s d : noany (terms (from_dependency O p s d)).
  Proof.
    destruct d as [p2 s2]. unfold from_dependency. cbn [terms].
    destruct (vs_eqb O s2 (vs_empty O)) eqn:Ee; [apply noany_single_pos|].
    destruct (N.eqb p p2); [apply noany_single_pos|].
    intros x t [E|[E|[]]]; injection E as <- <-; [discriminate|].
    unfold t_any. intros H. injection H as ->.
    assert (vs_eqb O (vs_empty O) (vs_empty O) = true) by now apply (vs_eqb_spec O L). congruence.
  Qed.

  Lemma ext_ok_noany (i : incompat) : ext_ok i -> noany (terms i).
  Proof.
    unfold SolverStore.ext_ok. destruct (ikind i) as [p v|p s|p s q t|a b|p s m].
    - intros (_ & _ & ->). exact noany_not_root.
    - intros (-> & _). apply noany_single_pos.
    - intros (-> & _). apply noany_from_dep.
    - intros [].
    - intros (-> & _). apply noany_single_pos.
  Qed.

  Lemma remove_in {A} p (m : list (pkg * A)) e : In e (remove p m) -> In e m.
  Proof.
    induction m as [|[k a] m IH]; cbn [remove]; [auto|]. destruct (N.eqb p k); [intros H; right; auto|].
    intros [<-|H]; [now left|right; auto].
  Qed.

  Lemma noany_remove p ts : noany ts -> noany (remove p ts).
  Proof. intros H x t Hin. apply (H x t). exact (remove_in _ _ _ Hin). Qed.

  Lemma noany_set p t ts : t <> t_any O -> noany ts -> noany (set p t ts).
  Proof. intros Ht H x u Hin. apply set_in_inv in Hin. destruct Hin as [E|Hin]; [injection E as <- <-; exact Ht|exact (H x u Hin)]. Qed.

  Lemma noany_snoc p t ts : t <> t_any O -> noany ts -> noany (ts ++ [(p, t)]).
  Proof. intros Ht H x u Hin. apply in_app_or in Hin. destruct Hin as [Hin|[E|[]]]; [exact (H x u Hin)|injection E as <- <-; exact Ht]. Qed.

  (* the intersection with a term that is not "any" is not "any" *)
  Lemma inter_not_any t1 t2 : twf t1 -> twf t2 -> t1 <> t_any O -> t_intersection O t1 t2 <> t_any O.
  Proof.
    destruct t1 as [a|a], t2 as [b|b]; cbn [t_intersection TermProofs.twf]; intros Ha Hb Hn; try discriminate.
    unfold t_any. intros H. injection H as H. apply Hn. unfold t_any. f_equal.
    apply (vs_ext O L); [exact Ha|apply (wf_empty O L)|]. intros u. rewrite (mem_empty O L).
    assert (E : mem O L (vs_union O a b) u = false) by (rewrite H; apply (mem_empty O L)).
    rewrite (mem_union O L) in E by assumption. now apply orb_false_iff in E.
  Qed.

  Lemma noany_merge_terms (other m : list (pkg * tm)) :
    twf_all m -> twf_all other -> noany m -> noany other -> noany (merge_terms O m other).
  Proof.
    revert m; induction other as [|[k t2] other IH]; intros m Wm Wo Nm No; cbn [merge_terms]; [exact Nm|].
    inversion Wo as [|? ? W2 Wo']; subst. cbn in W2.
    assert (No' : noany other) by (intros x t Hin; apply (No x t); now right).
    assert (N2 : t2 <> t_any O) by (apply (No k t2); now left).
    destruct (get k m) as [t1|] eqn:E.
    - assert (W1 : twf t1) by exact (twf_all_get O L _ _ _ Wm E).
      apply IH; [apply set_wf; [now apply twf_intersection|exact Wm]|exact Wo'| |exact No'].
      apply noany_set; [|exact Nm]. apply inter_not_any; [exact W1|exact W2|]. apply (Nm k t1). now apply get_In.
    - apply IH; [apply Forall_app; split; [exact Wm|constructor; [exact W2|constructor]]|exact Wo'| |exact No'].
      now apply noany_snoc.
  Qed.

  Lemma noany_prior_cause i j ti tj p pc :
    twf_all ti -> twf_all tj -> noany ti -> noany tj -> prior_cause O i j ti tj p = Good pc -> noany (terms pc).
  Proof.
    intros Wi Wj Ni Nj. unfold prior_cause, bind, req.
    destruct (get p ti) as [t1|]; [|discriminate]. destruct (get p tj) as [t2|]; [|discriminate].
    intros E. injection E as <-. cbn [terms].
    assert (Nr : noany (merge_terms O (remove p ti) (remove p tj))).
    { apply noany_merge_terms; try (now apply remove_wf); now apply noany_remove. }
    destruct (t_eqb O (t_union O t1 t2) (t_any O)) eqn:Eu; [exact Nr|].
    apply noany_set; [|exact Nr]. intros H. apply (t_eqb_spec O L) in H. congruence.
  Qed.

  Definition store_noany (s : list incompat) : Prop := Forall (fun ci : incompat => noany (terms ci)) s.

  Lemma store_noany_nth s id ci : store_noany s -> nth_error s id = Some ci -> noany (terms ci).
  Proof. intros H Hn. unfold store_noany in H. rewrite Forall_forall in H. apply H. eapply nth_error_In; eauto. Qed.

  (* ---------------------------------------------------------------- merge_dependents, find_merge *)
  Lemma merge_dependents_nopanic (self other : incompat) :
    ext_ok self -> ext_ok other -> exists m, merge_dependents O self other = Good m.
  Proof.
    unfold merge_dependents, as_dependency, SolverStore.ext_ok at 1 2.
    destruct (ikind self) as [| |p1 s1 p2 t1| |]; try (intros; eexists; reflexivity).
    destruct (ikind other) as [| |q1 s2 q2 t2| |]; try (intros; eexists; reflexivity).
    intros (Ts & Ws1 & Wt1 & D1) (To & Ws2 & Wt2 & D2).
    destruct (negb (N.eqb p1 q1 && N.eqb p2 q2)) eqn:Ek; [eexists; reflexivity|].
    apply negb_false_iff, andb_prop in Ek. destruct Ek as [K1 K2]. apply N.eqb_eq in K1, K2. subst q1 q2.
    destruct (N.eqb_spec p1 p2) as [|Hne]; [eexists; reflexivity|].
    destruct (from_dep_terms_get O p1 s1 p2 t1 Hne) as [G1 G2].
    destruct (from_dep_terms_get O p1 s2 p2 t2 Hne) as [G3 G4].
    rewrite Ts, To, G1, G2, G3, G4.
    destruct (negb (opt_term_eqb O _ _)); [eexists; reflexivity|].
    cbn [bind req unwrap_positive].
    destruct (vs_eqb O t1 (vs_empty O)); cbn [bind unwrap_negative]; eexists; reflexivity.
  Qed.

  Lemma find_merge_nopanic (cur : incompat) pasts (st : list incompat) :
    ext_ok cur -> (forall id, In id pasts -> exists i, nth_error st id = Some i /\ ext_ok i) ->
    exists m, find_merge O cur pasts st = Good m.
  Proof.
    intros Hc. induction pasts as [|x pasts IH]; intros Hp; cbn [find_merge]; [eexists; reflexivity|].
    destruct (Hp x (or_introl eq_refl)) as (i & Hi & He). rewrite Hi. cbn [bind req].
    destruct (merge_dependents_nopanic cur i Hc He) as ([mi|] & Em); rewrite Em; cbn [bind]; [eexists; reflexivity|].
    apply IH. intros id Hin. apply Hp. now right.
  Qed.

  (* ---------------------------------------------------------------- the index *)
  Definition indexed (ix : list (pkg * list nat)) (x : pkg) : Prop := get x ix <> None.

  (* every id listed in the index is allocated, and all its packages have an index entry *)
  Definition ixinv (st : state) : Prop :=
    forall p id, active st p id ->
      exists ci, nth_error (store st) id = Some ci /\ forall x, In x (keys (terms ci)) -> indexed (index st) x.

  Lemma indexed_set p (l : list nat) ix x : indexed ix x -> indexed (set p l ix) x.
  Proof.
    unfold indexed. destruct (N.eq_dec p x) as [->|Hne]; [rewrite get_set_same; discriminate|].
    now rewrite get_set_other.
  Qed.

  Lemma indexed_set_same p (l : list nat) ix : indexed (set p l ix) p.
  Proof. unfold indexed. rewrite get_set_same. discriminate. Qed.

  Lemma indexed_push id (ts : list (pkg * tm)) : forall ix x, indexed ix x -> indexed (index_push id ts ix) x.
  Proof.
    unfold index_push. induction ts as [|[k t] ts IH]; intros ix x H; cbn [fold_left]; [exact H|].
    apply IH. now apply indexed_set.
  Qed.

  Lemma indexed_push_key id (ts : list (pkg * tm)) : forall ix x, In x (keys ts) -> indexed (index_push id ts ix) x.
  Proof.
    unfold index_push. induction ts as [|[k t] ts IH]; intros ix x Hin; cbn [fold_left]; [destruct Hin|].
    destruct Hin as [<-|Hin]; [|now apply IH]. cbn [fst]. apply (indexed_push id ts). apply indexed_set_same.
  Qed.

  Lemma indexed_drop past (ts : list (pkg * tm)) : forall ix x, indexed ix x -> indexed (index_drop past ts ix) x.
  Proof.
    unfold index_drop. induction ts as [|[k t] ts IH]; intros ix x H; cbn [fold_left]; [exact H|].
    apply IH. now apply indexed_set.
  Qed.

  Lemma active_indexed (st : state) p id : active st p id -> indexed (index st) p.
  Proof. unfold active, index_get, indexed. destruct (get p (index st)); [discriminate|intros []]. Qed.

  (* ---------------------------------------------------------------- merge_incompatibility *)
  Lemma merge_incompatibility_nopanic st id cur :
    st_ok st -> nth_error (store st) id = Some cur -> (as_dependency cur <> None -> ext_ok cur) -> noany (terms cur) ->
    exists st', merge_incompatibility O st id = Good st'.
  Proof.
    intros (Hs & Hm & Hr & Hv) En Hid Hna. unfold merge_incompatibility. rewrite En. cbn [bind req].
    rewrite (noany_has_any _ Hna).
    destruct (as_dependency cur) as [key|] eqn:Ek; [|eexists; reflexivity].
    assert (Hcur : ext_ok cur) by (apply Hid; congruence).
    set (lookup := match get2 key (merged st) with Some l => l | None => [] end).
    assert (Hlook : forall x, In x lookup -> exists i, nth_error (store st) x = Some i /\ ext_ok i).
    { intros x Hin. unfold lookup in Hin. destruct (get2 key (merged st)) as [l|] eqn:Eg; [|destruct Hin].
      exact (Hm key l x Eg Hin). }
    destruct (find_merge_nopanic cur lookup (store st) Hcur Hlook) as (fm & Ef). rewrite Ef. cbn [bind].
    destruct fm as [[past mi]|]; [|eexists; reflexivity].
    assert (Hmi : ext_ok mi).
    { eapply find_merge_ok; [exact Hcur|exact Hs| |exact Ef]. intros x i Hin Hx.
      destruct (Hlook x Hin) as (i' & Hi' & He). congruence. }
    rewrite (noany_has_any _ (ext_ok_noany mi Hmi)). eexists; reflexivity.
  Qed.

  (* the merged incompatibility of a successful merge is external, hence free of "any" terms *)
  Lemma merge_incompatibility_noany st id st' :
    st_ok st -> (forall i, nth_error (store st) id = Some i -> as_dependency i <> None -> ext_ok i) ->
    store_noany (store st) -> merge_incompatibility O st id = Good st' -> store_noany (store st').
  Proof.
    intros (Hs & Hm & Hr & Hv) Hid Hna E.
    destruct (merge_incompatibility_cases O _ _ _ E) as (cur & En & _ & _ & [[Est _]|(key & past & mi & Ek & Ef & Est & _)]);
      rewrite Est; [exact Hna|].
    apply Forall_app. split; [exact Hna|]. constructor; [|constructor]. apply ext_ok_noany.
    eapply find_merge_ok; [apply (Hid cur En); congruence|exact Hs| |exact Ef].
    intros x i Hin Hx. destruct (get2 key (merged st)) as [l|] eqn:Eg; [|destruct Hin].
    destruct (Hm key l x Eg Hin) as (i' & Hi' & He). congruence.
  Qed.

  Lemma merge_incompatibility_indexed st id st' x :
    merge_incompatibility O st id = Good st' -> indexed (index st) x -> indexed (index st') x.
  Proof.
    intros E H. destruct (merge_incompatibility_cases O _ _ _ E) as (cur & _ & _ & _ & [[_ Eix]|(key & past & mi & _ & _ & _ & Eix)]);
      rewrite Eix.
    - now apply indexed_push.
    - now apply indexed_push, indexed_drop.
  Qed.

  Lemma merge_incompatibility_ix st id st' :
    ixinv st -> merge_incompatibility O st id = Good st' -> ixinv st'.
  Proof.
    intros Hix E p x Hact.
    assert (Hmono : forall y, indexed (index st) y -> indexed (index st') y)
      by (intros y; now apply (merge_incompatibility_indexed st id st' y E)).
    destruct (merge_incompatibility_cases O _ _ _ E) as (cur & En & _ & _ & [[Est Eix]|(key & past & mi & _ & _ & Est & Eix)]).
    - unfold active in Hact. rewrite Eix in Hact. apply SolverSound2.index_push_in in Hact. destruct Hact as [Hact|[-> Hk]].
      + destruct (Hix p x Hact) as (ci & Hci & Hk). exists ci. rewrite Est. split; [exact Hci|]. intros y Hy. apply Hmono, Hk, Hy.
      + exists cur. rewrite Est. split; [exact En|]. intros y Hy. rewrite Eix. now apply indexed_push_key.
    - unfold active in Hact. rewrite Eix in Hact. apply SolverSound2.index_push_in in Hact. destruct Hact as [Hact|[-> Hk]].
      + apply index_drop_in in Hact. destruct (Hix p x Hact) as (ci & Hci & Hk). exists ci. rewrite Est.
        split; [now apply nth_error_app_old|]. intros y Hy. apply Hmono, Hk, Hy.
      + exists mi. rewrite Est. split; [apply nth_error_snoc|]. intros y Hy. rewrite Eix. now apply indexed_push_key.
  Qed.

  (* an incompatibility that is not a dependency is indexed under all its packages *)
  Lemma merge_incompatibility_keys st id st' cur :
    nth_error (store st) id = Some cur -> as_dependency cur = None -> merge_incompatibility O st id = Good st' ->
    forall x, In x (keys (terms cur)) -> indexed (index st') x.
  Proof.
    intros En Ek E x Hx.
    destruct (merge_incompatibility_cases O _ _ _ E) as (cur' & En' & _ & _ & [[_ Eix]|(key & past & mi & Ek' & _)]).
    - rewrite En in En'. injection En' as <-. rewrite Eix. now apply indexed_push_key.
    - rewrite En in En'. injection En' as <-. congruence.
  Qed.

  (* ---------------------------------------------------------------- alloc *)
  Lemma alloc_ix (st : state) (i : incompat) : ixinv st -> ixinv (fst (alloc st i)).
  Proof.
    intros Hix p x Hact. destruct (Hix p x Hact) as (ci & Hci & Hk). exists ci. cbn. split; [now apply nth_error_app_old|exact Hk].
  Qed.

  Lemma alloc_noany (st : state) (i : incompat) : store_noany (store st) -> noany (terms i) -> store_noany (store (fst (alloc st i))).
  Proof. intros H Hi. cbn. apply Forall_app. split; [exact H|constructor; [exact Hi|constructor]]. Qed.

  (* ---------------------------------------------------------------- add_incompatibility *)
  Lemma add_incompatibility_nopanic st (i : incompat) :
    st_ok st -> ext_ok i -> exists st', add_incompatibility O st i = Good st'.
  Proof.
    intros Hst Hi. unfold add_incompatibility. cbn.
    apply (merge_incompatibility_nopanic _ _ i).
    - exact (alloc_ok O L reg r rv st i Hst (J_ext _ _ _ _ _ _ _ Hi)).
    - cbn. apply nth_error_snoc.
    - intros _. exact Hi.
    - now apply ext_ok_noany.
  Qed.

  Lemma add_incompatibility_extra st (i : incompat) st' :
    st_ok st -> ext_ok i -> store_noany (store st) -> ixinv st -> add_incompatibility O st i = Good st' ->
    store_noany (store st') /\ ixinv st' /\ (forall x, indexed (index st) x -> indexed (index st') x).
  Proof.
    intros Hst Hi Hna Hix. unfold add_incompatibility. cbn. intros E.
    pose proof (alloc_ok O L reg r rv st i Hst (J_ext _ _ _ _ _ _ _ Hi)) as Hst1.
    split; [|split].
    - eapply merge_incompatibility_noany; [exact Hst1| | |exact E].
      + cbn. intros j Hn _. rewrite nth_error_snoc in Hn. now injection Hn as <-.
      + apply (alloc_noany st i Hna). now apply ext_ok_noany.
    - eapply merge_incompatibility_ix; [|exact E]. exact (alloc_ix st i Hix).
    - intros x Hx. exact (merge_incompatibility_indexed _ _ _ x E Hx).
  Qed.

  (* ---------------------------------------------------------------- merge_range, add_incompatibility_from_dependencies *)
  Lemma merge_range_nopanic ids : forall st,
    st_ok st -> (forall id, In id ids -> exists i, nth_error (store st) id = Some i /\ ext_ok i) ->
    exists st', merge_range O st ids = Good st'.
  Proof.
    induction ids as [|id ids IH]; intros st Hst Hids; cbn [merge_range]; [eexists; reflexivity|].
    destruct (Hids id (or_introl eq_refl)) as (i & Hi & He).
    destruct (merge_incompatibility_nopanic st id i Hst Hi (fun _ => He) (ext_ok_noany i He)) as (st1 & E). rewrite E. cbn [bind].
    assert (Hst1 : st_ok st1).
    { eapply merge_incompatibility_ok; [exact Hst| |exact E]. intros i' Hn _. congruence. }
    destruct (merge_incompatibility_ext O _ _ _ E) as (ex1 & Hex1).
    apply IH; [exact Hst1|]. intros x Hin. destruct (Hids x (or_intror Hin)) as (j & Hj & Hej). exists j. split; [|exact Hej].
    rewrite Hex1. now apply nth_error_app_old.
  Qed.

  Lemma merge_range_extra ids : forall st st',
    st_ok st -> (forall id, In id ids -> exists i, nth_error (store st) id = Some i /\ ext_ok i) ->
    store_noany (store st) -> ixinv st -> merge_range O st ids = Good st' ->
    store_noany (store st') /\ ixinv st' /\ (forall x, indexed (index st) x -> indexed (index st') x).
  Proof.
    induction ids as [|id ids IH]; intros st st' Hst Hids Hna Hix; cbn [merge_range].
    - intros E. injection E as <-. auto.
    - unfold bind. destruct (merge_incompatibility O st id) as [st1|] eqn:E; [|discriminate]. intros H.
      destruct (Hids id (or_introl eq_refl)) as (i & Hi & He).
      assert (Hst1 : st_ok st1).
      { eapply merge_incompatibility_ok; [exact Hst| |exact E]. intros i' Hn _. congruence. }
      destruct (merge_incompatibility_ext O _ _ _ E) as (ex1 & Hex1).
      destruct (IH st1 st' Hst1) as (K1 & K2 & K3); [| | |exact H|].
      + intros x Hin. destruct (Hids x (or_intror Hin)) as (j & Hj & Hej). exists j. split; [|exact Hej].
        rewrite Hex1. now apply nth_error_app_old.
      + eapply merge_incompatibility_noany; [exact Hst| |exact Hna|exact E]. intros i' Hn _. congruence.
      + eapply merge_incompatibility_ix; eauto.
      + split; [exact K1|]. split; [exact K2|]. intros x Hx. apply K3. exact (merge_incompatibility_indexed _ _ _ x E Hx).
  Qed.

  Section FromDeps.
    Variables (st : state) (p : pkg) (v : Vr) (deps : list (pkg * VS)).
    Hypothesis Hst : st_ok st.
    Hypothesis Hdeps : forall q s, In (q, s) deps -> wfs s /\ declares O reg p (vs_singleton O v) q s.

    Let news := map (fun d => from_dependency O p (vs_singleton O v) d) deps.
    Let st1 : state := {| root := root st; rootv := rootv st; index := index st; contradicted := contradicted st;
                          merged := merged st; ps := ps st; store := store st ++ news |}.

    Lemma from_deps_news_ok : Forall (fun i : incompat => ext_ok i) news.
    Proof.
      unfold news. apply Forall_forall. intros i Hi. apply in_map_iff in Hi. destruct Hi as ([q s] & <- & Hin).
      destruct (Hdeps q s Hin) as [Hw Hd]. unfold SolverStore.ext_ok. cbn [ikind from_dependency].
      split; [reflexivity|]. split; [apply (wf_singleton O L)|]. split; assumption.
    Qed.

    Lemma from_deps_st1_ok : st_ok st1.
    Proof.
      destruct Hst as (Hs & Hm & Hr & Hv). split; [apply store_just_app; [exact Hs|exact from_deps_news_ok]|].
      split; [|split; assumption].
      intros k l x Hg Hin. destruct (Hm k l x Hg Hin) as (i & Hi & He). exists i. split; [now apply nth_error_app_old|exact He].
    Qed.

    Lemma from_deps_ids x : In x (seq (length (store st)) (length news)) ->
      exists i, nth_error (store st1) x = Some i /\ ext_ok i.
    Proof.
      intros Hin. apply in_seq in Hin. cbn [store st1].
      destruct (nth_error news (x - length (store st))) as [i|] eqn:En.
      - exists i. split; [rewrite nth_error_app2 by lia; exact En|].
        pose proof from_deps_news_ok as Hn. rewrite Forall_forall in Hn. apply Hn. eapply nth_error_In. exact En.
      - exfalso. apply nth_error_None in En. lia.
    Qed.

    Lemma add_from_dependencies_nopanic : exists res, add_incompatibility_from_dependencies O st p v deps = Good res.
    Proof.
      unfold add_incompatibility_from_dependencies. fold news. fold st1.
      destruct (merge_range_nopanic _ st1 from_deps_st1_ok from_deps_ids) as (st2 & E). rewrite E. cbn [bind]. eexists; reflexivity.
    Qed.

    Lemma add_from_dependencies_extra st' range :
      store_noany (store st) -> ixinv st -> add_incompatibility_from_dependencies O st p v deps = Good (st', range) ->
      store_noany (store st') /\ ixinv st' /\ (forall x, indexed (index st) x -> indexed (index st') x).
    Proof.
      intros Hna Hix. unfold add_incompatibility_from_dependencies. fold news. fold st1. unfold bind.
      destruct (merge_range O st1 (seq (length (store st)) (length news))) as [st2|] eqn:E; [|discriminate].
      intros H. injection H as <- _.
      apply (merge_range_extra _ st1 st2 from_deps_st1_ok from_deps_ids); [| |exact E].
      - cbn [store st1]. apply Forall_app. split; [exact Hna|]. pose proof from_deps_news_ok as Hn.
        unfold store_noany. rewrite Forall_forall in Hn |- *. intros i Hi. apply ext_ok_noany. now apply Hn.
      - intros q x Hact. destruct (Hix q x Hact) as (ci & Hci & Hk). exists ci. cbn [store st1]. split; [now apply nth_error_app_old|exact Hk].
    Qed.
  End FromDeps.
End NoPanicStore.

(* ---------------------------------------------------------------------- the partial solution *)
Section NoPanicPS.
  Context {VS Vr : Type} (O : VSOps VS Vr) (L : VSLawful O).
  Variables (r : pkg) (rv : Vr).
  Notation tm := (term VS).
  Notation pa := (@pa VS Vr).
  Notation dated := (@dated VS).
  Notation psol := (@psol VS Vr).
  Notation twf := (twf O L).
  Notation twf_all := (twf_all O L).
  Notation ps_wf := (ps_wf O L).
  Notation pa_wf := (pa_wf O L).
  Notation tleU := (tleU O L).

  (* ---------------------------------------------------------------- the first derivation carries the smallest level *)
  Definition pa_first (a : pa) : Prop := match derivs a with [] => False | d :: _ => d_level d = smallest a end.
  Definition ps_first (asg : list (pkg * pa)) : Prop := forall q a, get q asg = Some a -> pa_first a.

  Lemma dwg_snoc_nonempty Lv (d : dated) (l : list dated) : d_level d <= Lv -> drop_while_gt Lv (l ++ [d]) <> [].
  Proof.
    intros H. induction l as [|x l IH]; cbn [app drop_while_gt].
    - destruct (Nat.ltb_spec Lv (d_level d)); [lia|discriminate].
    - destruct (Nat.ltb Lv (d_level x)); [exact IH|discriminate].
  Qed.

  Lemma backtrack_pa_nopanic Lv (a : pa) : pa_first a -> exists oa, backtrack_pa Lv a = Good oa.
  Proof.
    intros Hf. unfold backtrack_pa. destruct (Nat.ltb_spec Lv (smallest a)); [eexists; reflexivity|].
    destruct (Nat.leb (highest a) Lv); [eexists; reflexivity|]. cbv zeta.
    rewrite rev_involutive. unfold pa_first in Hf. destruct (derivs a) as [|d rest] eqn:Ed; [destruct Hf|].
    cbn [rev]. destruct (drop_while_gt Lv (rev rest ++ [d])) eqn:E; [|eexists; reflexivity].
    exfalso. apply (dwg_snoc_nonempty Lv d (rev rest)); [lia|exact E].
  Qed.

  Lemma backtrack_asg_nopanic Lv (m : list (pkg * pa)) :
    (forall q a, In (q, a) m -> pa_first a) -> exists m', backtrack_asg Lv m = Good m'.
  Proof.
    induction m as [|[q a] m IH]; intros H; cbn [backtrack_asg]; [eexists; reflexivity|].
    destruct (backtrack_pa_nopanic Lv a (H q a (or_introl eq_refl))) as (oa & E). rewrite E. cbn [bind].
    destruct IH as (m' & E'); [intros q' a' Hin; apply (H q' a'); now right|]. rewrite E'. cbn [bind]. eexists; reflexivity.
  Qed.

  Lemma ps_backtrack_nopanic (p : psol) Lv :
    NoDup (keys (assignments p)) -> ps_first (assignments p) -> exists p', ps_backtrack p Lv = Good p'.
  Proof.
    intros Hnd Hf. unfold ps_backtrack.
    destruct (backtrack_asg_nopanic Lv (assignments p)) as (m' & E); [|rewrite E; cbn [bind]; eexists; reflexivity].
    intros q a Hin. apply (Hf q a). now apply In_get.
  Qed.

  Lemma backtrack_pa_first Lv (a a' : pa) : pa_first a -> backtrack_pa Lv a = Good (Some a') -> pa_first a'.
  Proof.
    intros Hf. unfold backtrack_pa. destruct (Nat.ltb Lv (smallest a)); [discriminate|].
    destruct (Nat.leb (highest a) Lv); [intros E; now injection E as <-|]. cbv zeta.
    destruct (dwg_suffix Lv (rev (derivs a))) as (pre & Epre).
    set (kept := rev (drop_while_gt Lv (rev (derivs a)))) in *.
    assert (Ed : derivs a = kept ++ rev pre).
    { rewrite <- (rev_involutive (derivs a)), Epre, rev_app_distr. reflexivity. }
    destruct (rev kept) as [|last rest] eqn:Er; [discriminate|]. intros E. injection E as <-.
    unfold pa_first in *. cbn [derivs smallest]. rewrite Ed in Hf.
    destruct kept as [|k kr]; [discriminate|]. exact Hf.
  Qed.

  Lemma deriv_upd_first (p : psol) cause ct (a : pa) t : pa_first a -> pa_first (deriv_upd O p cause ct a t).
  Proof. unfold pa_first, deriv_upd. cbn [derivs smallest]. destruct (derivs a); [intros []|auto]. Qed.

  Lemma deriv_new_first (p : psol) cause (ct : tm) : pa_first (deriv_new (Vr := Vr) p cause ct).
  Proof. reflexivity. Qed.

  Lemma decide_upd_first (p : psol) v (a : pa) : pa_first a -> pa_first (decide_upd O p v a).
  Proof. auto. Qed.

  (* ---------------------------------------------------------------- the chain of accumulated terms, over the universe *)
  Fixpoint rchainU (l : list dated) : Prop :=
    match l with
    | [] => True
    | d :: rest => Forall (fun d' => tleU (d_accum d) (d_accum d')) rest /\ rchainU rest
    end.
  Definition ps_chainU (asg : list (pkg * pa)) : Prop := forall q a, get q asg = Some a -> rchainU (rev (derivs a)).

  Lemma rchainU_suffix pre : forall l, rchainU (pre ++ l) -> rchainU l.
  Proof. induction pre as [|d pre IH]; intros l H; [exact H|]. apply IH. exact (proj2 H). Qed.

  Lemma rchainU_head_le d l x : rchainU (d :: l) -> In x (d :: l) -> tleU (d_accum d) (d_accum x).
  Proof.
    intros [H _] [<-|Hin]; [apply tleU_refl|]. rewrite Forall_forall in H. exact (H x Hin).
  Qed.

  Lemma deriv_upd_chainU (p : psol) cause ct (a : pa) t :
    pa_chain O a -> rchainU (rev (derivs a)) -> ai a = ADerivations t -> twf t -> twf ct ->
    rchainU (rev (derivs (deriv_upd O p cause ct a t))).
  Proof.
    intros [_ Hs] Hc Ea Wt Wc. unfold deriv_upd. cbn [derivs]. rewrite rev_app_distr. cbn [rev app rchainU d_accum].
    split; [|exact Hc]. destruct (rev (derivs a)) as [|dl rest] eqn:Er; [destruct Hs|]. rewrite Ea in Hs. destruct Hs as [-> _].
    apply Forall_forall. intros d' Hd'. eapply tleU_trans; [apply tleU_inter_l; [exact Wt|now apply twf_negate]|].
    exact (rchainU_head_le dl rest d' Hc Hd').
  Qed.

  Section AtomicPS.
    Hypothesis Hat : singleton_atomic O L.

    (* the current term of a package is below all its accumulated terms *)
    Lemma cur_tleU (a : pa) dd :
      pa_chain O a -> pa_wf a -> rchainU (rev (derivs a)) -> In dd (derivs a) -> tleU (ai_term (ai a)) (d_accum dd).
    Proof.
      intros [_ Hs] [_ Wd] Hc Hin. apply in_rev in Hin.
      destruct (rev (derivs a)) as [|dl rest] eqn:Er; [destruct Hs|].
      pose proof (rchainU_head_le dl rest dd Hc Hin) as Hle.
      destruct (ai a) as [g v t|t]; cbn [ai_term].
      - destruct Hs as [-> Hcon]. eapply tleU_trans; [|exact Hle]. apply (exact_tleU O L Hat); [|exact Hcon].
        rewrite Forall_forall in Wd. apply Wd. apply in_rev. rewrite Er. now left.
      - destruct Hs as [-> _]. exact Hle.
    Qed.

    (* the current term refines the term before any global index, over the universe *)
    Lemma lookup_before_finalU (p : psol) g x tx :
      ps_chain O (assignments p) -> ps_wf p -> ps_chainU (assignments p) ->
      lookup_before g (assignments p) x = Some tx -> exists tf, term_for p x = Some tf /\ tleU tf tx.
    Proof.
      intros Hc Hw Hu. unfold lookup_before, term_for. destruct (get x (assignments p)) as [a|] eqn:Eg; [|discriminate].
      intros Hb. exists (ai_term (ai a)). split; [reflexivity|]. apply term_before_in in Hb.
      destruct Hb as [(dd & Hin & _ & ->)|(gd & v & Ea & _)].
      - exact (cur_tleU a dd (ps_chain_get O _ _ _ Hc Eg) (ps_wf_get O L _ _ _ Hw Eg) (Hu x a Eg) Hin).
      - rewrite Ea. apply tleU_refl.
    Qed.
  End AtomicPS.

  (* ---------------------------------------------------------------- decisions open their level; level 0 belongs to the root *)
  (* every assignment made at or before a decision (other than the decision itself) has a smaller level *)
  Definition kdec (p : psol) : Prop :=
    forall q a g v t, get q (assignments p) = Some a -> ai a = ADecision g v t ->
      forall y b g' l', get y (assignments p) = Some b -> evt b g' l' -> g' <= g -> l' < highest a \/ (y = q /\ g' = g).
  Definition lev0 (asg : list (pkg * pa)) : Prop := forall q a g, get q asg = Some a -> evt a g 0 -> q = r.
  Definition dec1 (asg : list (pkg * pa)) : Prop :=
    forall q a g v t, get q asg = Some a -> ai a = ADecision g v t -> highest a = 1 -> q = r /\ v = rv.
  (* every queued package is assigned, undecided and has a positive term *)
  Definition qpos (asg : list (pkg * pa)) (qu : list (pkg * (Z * VS))) : Prop :=
    forall x e, get x qu = Some e -> exists a s, get x asg = Some a /\ ai a = ADerivations (Pos s).

  Record pinv (p : psol) : Prop := {
    pi_first : ps_first (assignments p);
    pi_chU : ps_chainU (assignments p);
    pi_kdec : kdec p;
    pi_lev0 : lev0 (assignments p);
    pi_dec1 : dec1 (assignments p);
    pi_qpos : qpos (assignments p) (queue p);
  }.

  Lemma pinv_queue (p p' : psol) :
    pinv p -> assignments p' = assignments p -> qpos (assignments p) (queue p') -> pinv p'.
  Proof.
    intros [H1 H2 H3 H4 H5 H6] Ea Hq. constructor; rewrite ?Ea; try assumption.
    unfold kdec. rewrite Ea. exact H3.
  Qed.

  Lemma pinv_add_derivation (p : psol) q cause cts p' :
    layout p -> ps_chain O (assignments p) -> ps_wf p -> kinv p -> twf_all cts -> pinv p ->
    (level p = 0 -> q = r) -> add_derivation O p q cause cts = Good p' -> pinv p'.
  Proof.
    intros Hl Hc Hw [K1 K2] Wc [H1 H2 H3 H4 H5 H6] H0 Ed.
    destruct (add_derivation_get O _ _ _ _ _ Ed) as (ct & a' & Hct & Elv & Eq & Hget & Hcase).
    assert (Wct : twf ct) by exact (twf_all_get O L _ _ _ Wc Hct).
    assert (Hund : ai a' = ADerivations (ai_term (ai a'))).
    { destruct Hcase as [(a0 & t & _ & _ & -> & _)|(_ & -> & _)]; reflexivity. }
    (* the assignments of the package that got the derivation *)
    assert (Hev : forall g l, evt a' g l ->
              (exists a0, get q (assignments p) = Some a0 /\ evt a0 g l) \/ (g = next_gidx p /\ l = level p)).
    { intros g l He. destruct Hcase as [(a0 & t & Hg0 & Ea0 & -> & _)|(_ & -> & _)].
      - apply (evt_deriv_upd O p cause ct a0 t g l Ea0) in He. destruct He as [He|He]; [left; eauto|now right].
      - apply evt_deriv_new in He. now right. }
    (* a decided package is an old one *)
    assert (Hdec : forall x a g v t, get x (assignments p') = Some a -> ai a = ADecision g v t ->
              x <> q /\ get x (assignments p) = Some a).
    { intros x a g v t Hg Ea. rewrite Hget in Hg. destruct (N.eqb_spec x q) as [->|Hne]; [|auto].
      injection Hg as <-. rewrite Hund in Ea. discriminate. }
    constructor.
    - intros x a Hg. rewrite Hget in Hg. destruct (N.eqb_spec x q) as [->|Hne]; [|exact (H1 x a Hg)].
      injection Hg as <-. destruct Hcase as [(a0 & t & Hg0 & _ & -> & _)|(_ & -> & _)].
      + apply deriv_upd_first. exact (H1 q a0 Hg0).
      + apply deriv_new_first.
    - intros x a Hg. rewrite Hget in Hg. destruct (N.eqb_spec x q) as [->|Hne]; [|exact (H2 x a Hg)].
      injection Hg as <-. destruct Hcase as [(a0 & t & Hg0 & Ea0 & -> & _)|(_ & -> & _)].
      + apply deriv_upd_chainU; [exact (ps_chain_get O _ _ _ Hc Hg0)|exact (H2 q a0 Hg0)|exact Ea0| |exact Wct].
        pose proof (proj1 (ps_wf_get O L _ _ _ Hw Hg0)) as Wt. now rewrite Ea0 in Wt.
      + cbn. auto.
    - intros q1 a1 g v t Hg1 Ea1 y b g' l' Hy He Hle.
      destruct (Hdec q1 a1 g v t Hg1 Ea1) as [Hne1 Hg1'].
      assert (Hlt : g < next_gidx p).
      { apply (K1 q1 a1 g (highest a1) Hg1'). right. eauto. }
      rewrite Hget in Hy. destruct (N.eqb_spec y q) as [->|Hney].
      + injection Hy as <-. destruct (Hev g' l' He) as [(a0 & Hg0 & He0)|[-> _]]; [|lia].
        exact (H3 q1 a1 g v t Hg1' Ea1 q a0 g' l' Hg0 He0 Hle).
      + exact (H3 q1 a1 g v t Hg1' Ea1 y b g' l' Hy He Hle).
    - intros x a g Hg He. rewrite Hget in Hg. destruct (N.eqb_spec x q) as [->|Hne]; [|exact (H4 x a g Hg He)].
      injection Hg as <-. destruct (Hev g 0 He) as [(a0 & Hg0 & He0)|[_ E0]]; [exact (H4 q a0 g Hg0 He0)|].
      apply H0. now rewrite E0.
    - intros x a g v t Hg Ea Hh. destruct (Hdec x a g v t Hg Ea) as [_ Hg']. exact (H5 x a g v t Hg' Ea Hh).
    - intros x e Hx. rewrite Eq in Hx. destruct (H6 x e Hx) as (a & s & Hg & Ea). rewrite Hget.
      destruct (N.eqb_spec x q) as [->|Hne]; [|eauto].
      destruct Hcase as [(a0 & t & Hg0 & Ea0 & -> & _)|(Hn & _)]; [|congruence].
      rewrite Hg in Hg0. injection Hg0 as <-. rewrite Ea in Ea0. injection Ea0 as <-.
      destruct ct; (eexists _, _; split; [reflexivity|unfold deriv_upd; cbn [ai t_negate t_intersection]; reflexivity]).
  Qed.

  Lemma pinv_add_decision (p : psol) q v p' :
    layout p -> kinv p -> pinv p -> get q (queue p) = None ->
    (level p = 0 -> q = r -> v = rv) -> add_decision O p q v = Good p' -> pinv p'.
  Proof.
    intros Hl [K1 K2] [H1 H2 H3 H4 H5 H6] Hqn Hrv Ed.
    destruct (add_decision_get O _ _ _ _ Hl Ed) as (a0 & t & Hg0 & Ea0 & Hcon & Elv & Eq & Hget).
    assert (Hev : forall g l, evt (decide_upd O p v a0) g l -> evt a0 g l \/ (g = next_gidx p /\ l = S (level p))).
    { intros g l He. now apply (evt_decide_upd O p v a0 t g l Ea0) in He. }
    assert (Hold : forall y b g l, get y (assignments p) = Some b -> evt b g l -> l <= level p).
    { intros y b g l Hy He. exact (layout_evt_level p y b g l Hl Hy He). }
    constructor.
    - intros x a Hg. rewrite Hget in Hg. destruct (N.eqb_spec x q) as [->|Hne]; [|exact (H1 x a Hg)].
      injection Hg as <-. apply decide_upd_first. exact (H1 q a0 Hg0).
    - intros x a Hg. rewrite Hget in Hg. destruct (N.eqb_spec x q) as [->|Hne]; [|exact (H2 x a Hg)].
      injection Hg as <-. cbn [decide_upd derivs]. exact (H2 q a0 Hg0).
    - intros q1 a1 g w u Hg1 Ea1 y b g' l' Hy He Hle. rewrite Hget in Hg1, Hy.
      destruct (N.eqb_spec q1 q) as [->|Hne1].
      + injection Hg1 as <-. cbn [decide_upd ai] in Ea1. injection Ea1 as <- _ _. cbn [decide_upd highest].
        destruct (N.eqb_spec y q) as [->|Hney].
        * injection Hy as <-. destruct (Hev g' l' He) as [He0|[-> _]]; [|now right].
          left. pose proof (Hold q a0 g' l' Hg0 He0). lia.
        * left. pose proof (Hold y b g' l' Hy He). lia.
      + assert (Hlt : g < next_gidx p) by (apply (K1 q1 a1 g (highest a1) Hg1); right; eauto).
        destruct (N.eqb_spec y q) as [->|Hney].
        * injection Hy as <-. destruct (Hev g' l' He) as [He0|[-> _]]; [|lia].
          exact (H3 q1 a1 g w u Hg1 Ea1 q a0 g' l' Hg0 He0 Hle).
        * exact (H3 q1 a1 g w u Hg1 Ea1 y b g' l' Hy He Hle).
    - intros x a g Hg He. rewrite Hget in Hg. destruct (N.eqb_spec x q) as [->|Hne]; [|exact (H4 x a g Hg He)].
      injection Hg as <-. destruct (Hev g 0 He) as [He0|[_ E0]]; [exact (H4 q a0 g Hg0 He0)|discriminate].
    - intros x a g w u Hg Ea Hh. rewrite Hget in Hg. destruct (N.eqb_spec x q) as [->|Hne]; [|exact (H5 x a g w u Hg Ea Hh)].
      injection Hg as <-. cbn [decide_upd ai highest] in Ea, Hh. injection Ea as _ <- _.
      assert (E0 : level p = 0) by lia.
      assert (Hq : q = r).
      { pose proof (H1 q a0 Hg0) as Hf. unfold pa_first in Hf. destruct (derivs a0) as [|d rest] eqn:Edr; [destruct Hf|].
        assert (He : evt a0 (d_gidx d) (d_level d)) by (left; exists d; rewrite Edr; split; [now left|auto]).
        pose proof (Hold q a0 _ _ Hg0 He) as Hle. apply (H4 q a0 (d_gidx d) Hg0).
        replace 0 with (d_level d) by lia. exact He. }
      split; [exact Hq|exact (Hrv E0 Hq)].
    - intros x e Hx. rewrite Eq in Hx. destruct (H6 x e Hx) as (a & s & Hg & Ea). rewrite Hget.
      destruct (N.eqb_spec x q) as [->|Hne]; [congruence|eauto].
  Qed.

  Lemma pinv_backtrack (p : psol) Lv p' : layout p -> pinv p -> ps_backtrack p Lv = Good p' -> pinv p'.
  Proof.
    intros Hl [H1 H2 H3 H4 H5 H6] Ep.
    assert (Hold : forall y b', get y (assignments p') = Some b' ->
              exists b, get y (assignments p) = Some b /\ backtrack_pa Lv b = Good (Some b')).
    { intros y b' Hy. exact (ps_backtrack_get_some p p' Lv Hl Ep y b' Hy). }
    assert (Hdec : forall x a g v t, get x (assignments p') = Some a -> ai a = ADecision g v t -> get x (assignments p) = Some a).
    { intros x a g v t Hg Ea. refine (proj1 (ps_backtrack_decided p p' Lv Hl Ep x a Hg _)). unfold decided. now rewrite Ea. }
    constructor.
    - intros x a' Hg. destruct (Hold x a' Hg) as (a & Ha & Hb). exact (backtrack_pa_first Lv a a' (H1 x a Ha) Hb).
    - intros x a' Hg. destruct (Hold x a' Hg) as (a & Ha & Hb).
      pose proof (backtrack_pa_cases Lv a (Some a') Hb) as (_ & [[-> _]|(_ & pre & dl & rest & Er & _ & _ & Er' & _)]);
        [exact (H2 x a Ha)|].
      rewrite Er'. pose proof (H2 x a Ha) as Hc. rewrite Er in Hc. exact (rchainU_suffix _ _ Hc).
    - intros q1 a1 g v t Hg1 Ea1 y b' g' l' Hy He Hle. destruct (Hold y b' Hy) as (b & Hb & Hbb).
      exact (H3 q1 a1 g v t (Hdec _ _ _ _ _ Hg1 Ea1) Ea1 y b g' l' Hb (backtrack_pa_evt Lv b b' g' l' Hbb He) Hle).
    - intros x a' g Hg He. destruct (Hold x a' Hg) as (a & Ha & Hb).
      exact (H4 x a g Ha (backtrack_pa_evt Lv a a' g 0 Hb He)).
    - intros x a g v t Hg Ea Hh. exact (H5 x a g v t (Hdec _ _ _ _ _ Hg Ea) Ea Hh).
    - destruct (ps_backtrack_asg p p' Lv Ep) as (_ & Eq & _). rewrite Eq. intros x e Hx. discriminate.
  Qed.

  (* ---------------------------------------------------------------- add_decision, add_derivation do not panic *)
  Lemma add_decision_nopanic (p : psol) q v (a : pa) t :
    get q (assignments p) = Some a -> ai a = ADerivations t -> t_contains O t v = true ->
    changed p = length (assignments p) -> exists p', add_decision O p q v = Good p'.
  Proof.
    intros Hg Ea Hc Hch. unfold add_decision. destruct (get_index_of q _ a Hg) as (idx & Ei). rewrite Ei, Hg, Ea, Hc. cbn [negb].
    rewrite Hch, Nat.eqb_refl. cbn [negb]. eexists; reflexivity.
  Qed.

  Lemma add_derivation_nopanic (p : psol) q cause (cts : list (pkg * tm)) :
    get q cts <> None -> (forall a, get q (assignments p) = Some a -> decided a = false) ->
    exists p', add_derivation O p q cause cts = Good p'.
  Proof.
    intros Hc Hu. unfold add_derivation. destruct (get q cts) as [ct|]; [|congruence]. cbn [bind req].
    destruct (get q (assignments p)) as [a|] eqn:Hg.
    - destruct (get_index_of q _ a Hg) as (idx & Ei). rewrite Ei. specialize (Hu a eq_refl). unfold decided in Hu.
      destruct (ai a); [discriminate|]. eexists; reflexivity.
    - destruct (index_of q (assignments p) 0); eexists; reflexivity.
  Qed.
End NoPanicPS.
