//! C11: Term operations (through the cfg(pubgrub_verif) wrappers) against Model/Term.v;
//! C17: a VersionSet that implements only the required methods (BitSet8) against Model/VS.v.
use crate::ranges::{all_ranges, build, parse_segs, probes, range_sx, segs_sx, Seg, R};
use crate::sexp::Sx;
use crate::{Out, Rng};
use pubgrub::verif_term as vt;
use pubgrub::{Term, VersionSet};
use std::fmt;

fn term_sx(t: &Term<R>) -> String {
    match t {
        Term::Positive(r) => format!("(p {})", range_sx(r)),
        Term::Negative(r) => format!("(n {})", range_sx(r)),
    }
}
fn mk(sign: &str, tree: u64, segs: &[Seg]) -> Term<R> {
    let r = build(tree, segs);
    if sign == "p" { Term::Positive(r) } else { Term::Negative(r) }
}
fn bits(t: &Term<R>, k: u32) -> String {
    let s: Vec<String> = probes(k).iter().map(|v| (vt::contains(t, v) as u8).to_string()).collect();
    format!("b{}", s.join(""))
}

/// the finite-universe VersionSet of C17: only the required methods are implemented
#[derive(Debug, Clone, PartialEq, Eq)]
pub struct BitSet8(pub u8);
impl fmt::Display for BitSet8 {
    fn fmt(&self, f: &mut fmt::Formatter<'_>) -> fmt::Result { write!(f, "{{{:08b}}}", self.0) }
}
impl VersionSet for BitSet8 {
    type V = u8;
    fn empty() -> Self { BitSet8(0) }
    fn singleton(v: u8) -> Self { BitSet8(1u8 << v) }
    fn complement(&self) -> Self { BitSet8(!self.0) }
    fn intersection(&self, other: &Self) -> Self { BitSet8(self.0 & other.0) }
    fn contains(&self, v: &u8) -> bool { *v < 8 && (self.0 >> *v) & 1 == 1 }
}
fn bterm_sx(t: &Term<BitSet8>) -> String {
    match t { Term::Positive(r) => format!("(p {})", r.0), Term::Negative(r) => format!("(n {})", r.0) }
}
fn bmk(sign: &str, m: u8) -> Term<BitSet8> {
    if sign == "p" { Term::Positive(BitSet8(m)) } else { Term::Negative(BitSet8(m)) }
}

fn catch<F: FnOnce() -> String + std::panic::UnwindSafe>(f: F) -> String {
    std::panic::catch_unwind(f).unwrap_or_else(|_| "panic".to_string())
}

pub fn eval(c: &Sx) -> String {
    let l = c.list();
    match c.head() {
        // (t2 k signA treeA segsA signB treeB segsB)
        "t2" => {
            let k = l[1].int() as u32;
            let (sa, ta, ga) = (l[2].atom().to_string(), l[3].int() as u64, parse_segs(&l[4]));
            let (sb, tb, gb) = (l[5].atom().to_string(), l[6].int() as u64, parse_segs(&l[7]));
            catch(move || {
                let a = mk(&sa, ta, &ga);
                let b = mk(&sb, tb, &gb);
                let i = vt::intersection(&a, &b);
                let u = vt::union(&a, &b);
                format!(
                    "(neg {}) (inter {}) (union {}) (sub {}) (dj {}) (rel {}) (ca {}) (cb {}) (eq {})",
                    term_sx(&vt::negate(&a)), term_sx(&i), term_sx(&u), vt::subset_of(&a, &b) as u8,
                    vt::is_disjoint(&a, &b) as u8, vt::relation_with(&a, &b), bits(&a, k), bits(&b, k), (a == b) as u8
                )
            })
        }
        // (tc): the constants
        "tc" => catch(|| {
            format!("(any {}) (empty {}) (exact {})", term_sx(&vt::any::<R>()), term_sx(&vt::empty::<R>()), term_sx(&vt::exact::<R>(10)))
        }),
        // (b2 a b): BitSet8 provided methods
        "b2" => {
            let (a, b) = (BitSet8(l[1].int() as u8), BitSet8(l[2].int() as u8));
            catch(move || {
                let ca: Vec<String> = (0u8..8).map(|v| (a.contains(&v) as u8).to_string()).collect();
                format!(
                    "(full {}) (union {}) (dj {}) (ss {}) (compl {}) (inter {}) (ca b{}) (eq {})",
                    BitSet8::full().0, a.union(&b).0, a.is_disjoint(&b) as u8, a.subset_of(&b) as u8,
                    a.complement().0, a.intersection(&b).0, ca.join(""), (a == b) as u8
                )
            })
        }
        // (bs v): singleton / empty
        "bs" => { let v = l[1].int() as u8; format!("(single {}) (empty {})", BitSet8::singleton(v).0, BitSet8::empty().0) }
        // (bt2 signA a signB b): terms over BitSet8
        "bt2" => {
            let (a, b) = (bmk(l[1].atom(), l[2].int() as u8), bmk(l[3].atom(), l[4].int() as u8));
            catch(move || {
                format!(
                    "(neg {}) (inter {}) (union {}) (sub {}) (dj {}) (rel {})",
                    bterm_sx(&vt::negate(&a)), bterm_sx(&vt::intersection(&a, &b)), bterm_sx(&vt::union(&a, &b)),
                    vt::subset_of(&a, &b) as u8, vt::is_disjoint(&a, &b) as u8, vt::relation_with(&a, &b)
                )
            })
        }
        h => panic!("unknown case {}", h),
    }
}

fn run(out: &mut Out, case: String) {
    let sx = crate::sexp::parse(&case).unwrap();
    // a panic of the evaluated code (or a failed harness expectation) is an observation: the driver reports it with this case
    let obs = std::panic::catch_unwind(std::panic::AssertUnwindSafe(|| eval(&sx))).unwrap_or_else(|_| "(harness-panic 1)".to_string());
    out.emit(&case, &obs);
}

pub fn generate(out: &mut Out, rng: &mut Rng, thorough: bool, which: &str) {
    if which == "terms" {
        run(out, "(tc)".to_string());
        let signs = ["p", "n"];
        let small = all_ranges(2);
        for a in &small { for b in &small { for sa in signs { for sb in signs {
            run(out, format!("(t2 2 {} {} {} {} {} {})", sa, rng.below(3), segs_sx(a), sb, rng.below(3), segs_sx(b)));
        } } } }
        let big = all_ranges(3);
        if thorough {
            for a in &big { for b in &big { for sa in signs { for sb in signs {
                run(out, format!("(t2 3 {} {} {} {} {} {})", sa, rng.below(3), segs_sx(a), sb, rng.below(3), segs_sx(b)));
            } } } }
        } else {
            // the extremes against everything, and a seeded sample of the rest
            let ext: Vec<&Vec<Seg>> = vec![&big[0], &big[big.len() - 1]];
            for a in &ext { for b in &big { for sa in signs { for sb in signs {
                run(out, format!("(t2 3 {} 0 {} {} 1 {})", sa, segs_sx(a), sb, segs_sx(b)));
                run(out, format!("(t2 3 {} 1 {} {} 0 {})", sb, segs_sx(b), sa, segs_sx(a)));
            } } } }
            for _ in 0..20000 {
                let a = &big[rng.below(big.len() as u64) as usize];
                let b = &big[rng.below(big.len() as u64) as usize];
                run(out, format!("(t2 3 {} {} {} {} {} {})", signs[rng.below(2) as usize], rng.below(3), segs_sx(a),
                                 signs[rng.below(2) as usize], rng.below(3), segs_sx(b)));
            }
        }
    } else {
        // "bitset"
        for v in 0..8 { run(out, format!("(bs {})", v)); }
        for a in 0..256u32 { for b in 0..256u32 {
            if !thorough && (a * 7 + b * 13 + rng.below(4) as u32) % 4 != 0 && a > 3 && b > 3 && a < 252 && b < 252 { continue; }
            run(out, format!("(b2 {} {})", a, b));
        } }
        let signs = ["p", "n"];
        let n = if thorough { 200000 } else { 20000 };
        for _ in 0..n {
            run(out, format!("(bt2 {} {} {} {})", signs[rng.below(2) as usize], rng.below(256), signs[rng.below(2) as usize], rng.below(256)));
        }
        for sa in signs { for sb in signs { for a in [0u32, 255, 1, 128] { for b in [0u32, 255, 1, 128] {
            run(out, format!("(bt2 {} {} {} {})", sa, a, sb, b));
        } } } }
    }
}
