//! C10 / C15 / C16: pubgrub::Range<u32> against Model/Range.v, over all canonical ranges on k bound values.
use crate::sexp::Sx;
use crate::{Out, Rng};
use pubgrub::Range;
use std::collections::hash_map::DefaultHasher;
use std::hash::{Hash, Hasher};
use std::ops::Bound::{self, Excluded, Included, Unbounded};

pub type R = Range<u32>;
pub type Seg = (Bound<u32>, Bound<u32>);

pub fn bound_sx(b: &Bound<u32>) -> String {
    match b {
        Included(v) => format!("(i {})", v),
        Excluded(v) => format!("(e {})", v),
        Unbounded => "u".to_string(),
    }
}
pub fn segs_sx(segs: &[Seg]) -> String {
    let v: Vec<String> = segs.iter().map(|(s, e)| format!("({} {})", bound_sx(s), bound_sx(e))).collect();
    format!("({})", v.join(" "))
}
pub fn range_sx(r: &R) -> String {
    let segs: Vec<Seg> = r.iter().map(|(s, e)| (s.clone(), e.clone())).collect();
    segs_sx(&segs)
}
pub fn parse_bound(s: &Sx) -> Bound<u32> {
    match s {
        Sx::A(a) if a == "u" => Unbounded,
        Sx::L(l) if l[0].atom() == "i" => Included(l[1].int() as u32),
        Sx::L(l) if l[0].atom() == "e" => Excluded(l[1].int() as u32),
        _ => panic!("bound"),
    }
}
pub fn parse_segs(s: &Sx) -> Vec<Seg> {
    s.list().iter().map(|p| { let l = p.list(); (parse_bound(&l[0]), parse_bound(&l[1])) }).collect()
}

/// Parse the Display text of a Range<u32> back into its segments (grammar of src/range.rs Display).
pub fn parse_display(t: &str) -> Vec<Seg> {
    if t == "∅" { return vec![]; }
    let atom = |a: &str| -> (Option<Bound<u32>>, Option<Bound<u32>>) {
        let num = |x: &str| x.trim().parse::<u32>().expect("version");
        if a == "*" { (Some(Unbounded), Some(Unbounded)) }
        else if let Some(x) = a.strip_prefix("<=") { (None, Some(Included(num(x)))) }
        else if let Some(x) = a.strip_prefix(">=") { (Some(Included(num(x))), None) }
        else if let Some(x) = a.strip_prefix('<') { (None, Some(Excluded(num(x)))) }
        else if let Some(x) = a.strip_prefix('>') { (Some(Excluded(num(x))), None) }
        else { let v = num(a); (Some(Included(v)), Some(Included(v))) }
    };
    t.split(" | ").map(|sg| {
        let mut lo = Unbounded; let mut hi = Unbounded;
        for a in sg.split(", ") {
            let (l, h) = atom(a);
            if let Some(l) = l { lo = l; }
            if let Some(h) = h { hi = h; }
        }
        (lo, hi)
    }).collect()
}

/// Build a range from its intended segments through the public API only, by one of three
/// construction trees (so equal sets reached through different operations are compared).
pub fn build(tree: u64, segs: &[Seg]) -> R {
    let one = |s: &Seg| -> R {
        match tree % 3 {
            0 => R::from_range_bounds((s.0.clone(), s.1.clone())),
            1 => {
                let lo = match &s.0 { Included(v) => R::higher_than(*v), Excluded(v) => R::strictly_higher_than(*v), Unbounded => R::full() };
                let hi = match &s.1 { Included(v) => R::lower_than(*v), Excluded(v) => R::strictly_lower_than(*v), Unbounded => R::full() };
                lo.intersection(&hi)
            }
            _ => {
                // complement of (below the start) ∪ (above the end)
                let below = match &s.0 { Included(v) => R::strictly_lower_than(*v), Excluded(v) => R::lower_than(*v), Unbounded => R::empty() };
                let above = match &s.1 { Included(v) => R::strictly_higher_than(*v), Excluded(v) => R::higher_than(*v), Unbounded => R::empty() };
                below.union(&above).complement()
            }
        }
    };
    let mut acc = R::empty();
    // tree 2 unions right-to-left
    if tree % 3 == 2 { for s in segs.iter().rev() { acc = one(s).union(&acc); } }
    else { for s in segs { acc = acc.union(&one(s)); } }
    // a finishing operation that does not change the set (different operation histories of equal ranges:
    // results built with over-estimated capacities, by complement, by intersection)
    match (tree / 3) % 4 {
        1 => acc.union(&acc),
        2 => acc.complement().complement(),
        3 => acc.intersection(&acc),
        _ => acc,
    }
}

fn h64<T: Hash>(t: &T) -> (u64, u64) {
    let mut a = DefaultHasher::new();
    t.hash(&mut a);
    let mut b = rustc_hash::FxHasher::default();
    t.hash(&mut b);
    (a.finish(), b.finish())
}

pub fn probes(k: u32) -> Vec<u32> { (1..=(2 * k + 1)).map(|i| 5 * i).collect() }

fn mask(r: &R, k: u32) -> u64 {
    let mut m = 0u64;
    for (i, p) in probes(k).iter().enumerate() { if r.contains(p) { m |= 1 << i; } }
    m
}

fn cmp_s(o: std::cmp::Ordering) -> &'static str {
    match o { std::cmp::Ordering::Less => "lt", std::cmp::Ordering::Equal => "eq", std::cmp::Ordering::Greater => "gt" }
}

fn catch<F: FnOnce() -> String + std::panic::UnwindSafe>(f: F) -> String {
    std::panic::catch_unwind(f).unwrap_or_else(|_| "panic".to_string())
}

fn opt_ver(v: Option<&u32>) -> String { match v { Some(v) => format!("(some {})", v), None => "none".into() } }

pub fn eval(c: &Sx) -> String {
    let l = c.list();
    match c.head() {
        // (r1 k tree segs)
        "r1" => {
            let k = l[1].int() as u32;
            let segs = parse_segs(&l[3]);
            let tree = l[2].int() as u64;
            catch(move || {
                let a = build(tree, &segs);
                let c = a.complement();
                let cc = c.complement();
                let br = match a.bounding_range() {
                    None => "none".to_string(),
                    Some((s, e)) => format!("(some {} {})", bound_sx(&s.cloned()), bound_sx(&e.cloned())),
                };
                format!(
                    "(built {}) (compl {}) (cc {}) (empty {}) (single {}) (bounding {}) (ma {}) (mc {}) (disp {})",
                    range_sx(&a), range_sx(&c), range_sx(&cc), a.is_empty() as u8, opt_ver(a.as_singleton()), br,
                    mask(&a, k), mask(&c, k), crate::sexp::bytes(a.to_string().as_bytes())
                )
            })
        }
        // (r2 k treeA segsA treeB segsB)
        "r2" => {
            let k = l[1].int() as u32;
            let (ta, sa, tb, sb) = (l[2].int() as u64, parse_segs(&l[3]), l[4].int() as u64, parse_segs(&l[5]));
            catch(move || {
                let a = build(ta, &sa);
                let b = build(tb, &sb);
                let u = a.union(&b);
                let i = a.intersection(&b);
                let heq = h64(&a) == h64(&b);
                format!(
                    "(u {}) (i {}) (dj {}) (ss {}) (eq {}) (cmp {}) (pcmp {}) (rcmp {}) (ma {}) (mb {}) (mu {}) (mi {}) (ieqa {}) (iempty {}) (heq {})",
                    range_sx(&u), range_sx(&i), a.is_disjoint(&b) as u8, a.subset_of(&b) as u8, (a == b) as u8,
                    cmp_s(a.cmp(&b)), a.partial_cmp(&b).map(cmp_s).unwrap_or("none"), cmp_s(b.cmp(&a)),
                    mask(&a, k), mask(&b, k), mask(&u, k), mask(&i, k),
                    (i == a) as u8, (i == R::empty()) as u8, heq as u8
                )
            })
        }
        // (r3 segsA segsB segsC): ordering of triples
        "r3" => {
            let (sa, sb, sc) = (parse_segs(&l[1]), parse_segs(&l[2]), parse_segs(&l[3]));
            catch(move || {
                let (a, b, c) = (build(0, &sa), build(1, &sb), build(2, &sc));
                format!("({} {} {})", cmp_s(a.cmp(&b)), cmp_s(b.cmp(&c)), cmp_s(a.cmp(&c)))
            })
        }
        // (rv k tree segs (versions...)): queries over a sorted version sequence
        "rv" => {
            let segs = parse_segs(&l[3]);
            let tree = l[2].int() as u64;
            let vs: Vec<u32> = l[4].list().iter().map(|x| x.int() as u32).collect();
            catch(move || {
                let a = build(tree, &segs);
                let each: Vec<String> = vs.iter().map(|v| (a.contains(v) as u8).to_string()).collect();
                let many: Vec<String> = a.contains_many(vs.iter()).map(|b| (b as u8).to_string()).collect();
                let many_owned: Vec<String> = a.contains_many(vs.clone().into_iter()).map(|b| (b as u8).to_string()).collect();
                assert_eq!(many, many_owned);
                let s = a.simplify(vs.iter());
                let s_each: Vec<String> = vs.iter().map(|v| (s.contains(v) as u8).to_string()).collect();
                format!("(each b{}) (many b{}) (simp {}) (simp-each b{})", each.join(""), many.join(""), range_sx(&s), s_each.join(""))
            })
        }
        // (rb start end v...): from_range_bounds against std's RangeBounds::contains
        "rb" => {
            let (s, e) = (parse_bound(&l[1]), parse_bound(&l[2]));
            let vs: Vec<u32> = l[3].list().iter().map(|x| x.int() as u32).collect();
            catch(move || {
                use std::ops::RangeBounds;
                let r = R::from_range_bounds((s.clone(), e.clone()));
                let mine: Vec<String> = vs.iter().map(|v| (r.contains(v) as u8).to_string()).collect();
                let stdc: Vec<String> = vs.iter().map(|v| ((s.clone(), e.clone()).contains(v) as u8).to_string()).collect();
                format!("(r {}) (contains b{}) (std b{})", range_sx(&r), mine.join(""), stdc.join(""))
            })
        }
        h => panic!("unknown case {}", h),
    }
}

/// all canonical ranges over the bound values 10,20,...,10k: one per subset of the 2k+1 cells
pub fn all_ranges(k: u32) -> Vec<Vec<Seg>> {
    let ncell = 2 * k + 1;
    let mut out = vec![];
    for m in 0u64..(1u64 << ncell) {
        let mut segs = vec![];
        let mut i = 0;
        while i < ncell {
            if m & (1 << i) == 0 { i += 1; continue; }
            let mut j = i;
            while j + 1 < ncell && m & (1 << (j + 1)) != 0 { j += 1; }
            // cells i..=j ; even index 2t = open interval (10t, 10(t+1)) with infinities at the ends, odd 2t+1 = {10(t+1)}
            let start = if i == 0 { Unbounded } else if i % 2 == 1 { Included(10 * ((i + 1) / 2)) } else { Excluded(10 * (i / 2)) };
            let end = if j == ncell - 1 { Unbounded } else if j % 2 == 1 { Included(10 * ((j + 1) / 2)) } else { Excluded(10 * (j / 2 + 1)) };
            segs.push((start, end));
            i = j + 1;
        }
        out.push(segs);
    }
    out
}

fn run(out: &mut Out, case: String) {
    let sx = crate::sexp::parse(&case).unwrap();
    // a panic of the evaluated code (or a failed harness expectation) is an observation: the driver reports it with this case
    let obs = std::panic::catch_unwind(std::panic::AssertUnwindSafe(|| eval(&sx))).unwrap_or_else(|_| "(harness-panic 1)".to_string());
    out.emit(&case, &obs);
}

fn sorted_seqs(vals: &[u32], maxlen: usize) -> Vec<Vec<u32>> {
    // all non-decreasing sequences (with repetitions) of length <= maxlen
    let mut res = vec![vec![]];
    let mut frontier = vec![vec![]];
    for _ in 0..maxlen {
        let mut next = vec![];
        for s in &frontier {
            let lo = s.last().copied().unwrap_or(0);
            for &v in vals { if v >= lo { let mut t: Vec<u32> = s.clone(); t.push(v); next.push(t); } }
        }
        res.extend(next.iter().cloned());
        frontier = next;
    }
    res
}

pub fn generate(out: &mut Out, rng: &mut Rng, thorough: bool, which: &str) {
    let k = 3u32;
    let rs = all_ranges(k);
    let vlist = |v: &[u32]| -> String { format!("({})", v.iter().map(|x| x.to_string()).collect::<Vec<_>>().join(" ")) };
    if which == "ranges" {
        for (idx, a) in rs.iter().enumerate() {
            for t in 0..12 { run(out, format!("(r1 {} {} {})", k, t, segs_sx(a))); let _ = idx; }
        }
        for (i, a) in rs.iter().enumerate() {
            for (j, b) in rs.iter().enumerate() {
                let ta = (i + 2 * j) as u64 + rng.below(12);
                let tb = (2 * i + j) as u64 + rng.below(12);
                run(out, format!("(r2 {} {} {} {} {})", k, ta % 12, segs_sx(a), tb % 12, segs_sx(b)));
            }
        }
        if thorough {
            let k4 = 4u32;
            let r4 = all_ranges(k4);
            for a in r4.iter() { run(out, format!("(r1 {} {} {})", k4, rng.below(12), segs_sx(a))); }
            for a in r4.iter() { for b in r4.iter() {
                run(out, format!("(r2 {} {} {} {} {})", k4, rng.below(12), segs_sx(a), rng.below(12), segs_sx(b)));
            } }
        }
    } else if which == "rangeord" {
        // pairs are covered by "ranges" (cmp, pcmp, eq, heq); here: triples
        let n = rs.len() as u64;
        if thorough {
            for a in rs.iter() { for b in rs.iter() { for c in rs.iter() {
                run(out, format!("(r3 {} {} {})", segs_sx(a), segs_sx(b), segs_sx(c)));
            } } }
        } else {
            for _ in 0..20000 {
                let (a, b, c) = (&rs[rng.below(n) as usize], &rs[rng.below(n) as usize], &rs[rng.below(n) as usize]);
                run(out, format!("(r3 {} {} {})", segs_sx(a), segs_sx(b), segs_sx(c)));
            }
        }
        for (i, a) in rs.iter().enumerate() { for (j, b) in rs.iter().enumerate() {
            run(out, format!("(r2 {} {} {} {} {})", k, (i % 12) as u64, segs_sx(a), ((j + 5) % 12) as u64, segs_sx(b)));
        } }
    } else {
        // "rangeq": queries
        let pv = probes(k);
        let seqs = sorted_seqs(&pv, if thorough { 5 } else { 3 });
        for (i, a) in rs.iter().enumerate() {
            for (j, s) in seqs.iter().enumerate() {
                if !thorough && s.len() == 3 && (i + j) % 2 == 1 { continue; }
                run(out, format!("(rv {} {} {} {})", k, (i + j) % 3, segs_sx(a), vlist(s)));
            }
        }
        // longer random sorted sequences
        for _ in 0..(if thorough { 50000 } else { 3000 }) {
            let a = &rs[rng.below(rs.len() as u64) as usize];
            let n = 4 + rng.below(6);
            let mut s: Vec<u32> = (0..n).map(|_| pv[rng.below(pv.len() as u64) as usize]).collect();
            s.sort();
            run(out, format!("(rv {} {} {} {})", k, rng.below(3), segs_sx(a), vlist(&s)));
        }
        // from_range_bounds: all pairs of bounds over {10,20}, all probes
        let bs = [Unbounded, Included(10), Excluded(10), Included(20), Excluded(20)];
        for s in &bs { for e in &bs {
            run(out, format!("(rb {} {} {})", bound_sx(s), bound_sx(e), vlist(&probes(2))));
        } }
        for a in rs.iter() { run(out, format!("(r1 {} {} {})", k, rng.below(3), segs_sx(a))); }
    }
}
