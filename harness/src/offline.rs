//! C18: OfflineDependencyProvider against Model/Offline.v
use crate::ranges::{parse_segs, range_sx, segs_sx, Seg, R};
use crate::sexp::Sx;
use crate::{Out, Rng};
use pubgrub::{Dependencies, DependencyProvider, OfflineDependencyProvider};
use std::ops::Bound::{Excluded, Included, Unbounded};

pub fn query_sets() -> Vec<Vec<Seg>> {
    vec![
        vec![(Unbounded, Unbounded)],
        vec![],
        vec![(Included(2), Included(2))],
        vec![(Included(2), Unbounded)],
        vec![(Unbounded, Excluded(3))],
        vec![(Unbounded, Excluded(2)), (Excluded(2), Unbounded)],
    ]
}

pub fn eval(c: &Sx) -> String {
    // (off (op...)) with op = (p v ((q segs)...))
    let l = c.list();
    let mut prov: OfflineDependencyProvider<u32, R> = OfflineDependencyProvider::new();
    for op in l[1].list() {
        let o = op.list();
        let (p, v) = (o[0].int() as u32, o[1].int() as u32);
        let deps: Vec<(u32, R)> = o[2].list().iter().map(|d| {
            let d = d.list();
            (d[0].int() as u32, crate::ranges::build(0, &parse_segs(&d[1])))
        }).collect();
        prov.add_dependencies(p, v, deps);
    }
    let mut out = String::new();
    let mut pk: Vec<u32> = prov.packages().cloned().collect();
    pk.sort();
    out += &format!("(packages ({}))", pk.iter().map(|x| x.to_string()).collect::<Vec<_>>().join(" "));
    for p in 0..3u32 {
        match prov.versions(&p) {
            None => out += &format!(" (versions {} none)", p),
            Some(it) => out += &format!(" (versions {} ({}))", p, it.map(|x| x.to_string()).collect::<Vec<_>>().join(" ")),
        }
        for v in 1..=3u32 {
            match prov.get_dependencies(&p, &v).unwrap() {
                Dependencies::Unavailable(_) => out += &format!(" (deps {} {} unavailable)", p, v),
                Dependencies::Available(m) => {
                    let mut e: Vec<(u32, String)> = m.iter().map(|(q, r)| (*q, range_sx(r))).collect();
                    e.sort();
                    out += &format!(" (deps {} {} ({}))", p, v, e.iter().map(|(q, r)| format!("({} {})", q, r)).collect::<Vec<_>>().join(" "));
                }
            }
        }
        for (i, s) in query_sets().iter().enumerate() {
            let set = crate::ranges::build(0, s);
            let ch = match prov.choose_version(&p, &set).unwrap() { Some(v) => v.to_string(), None => "none".into() };
            let pr = prov.prioritize(&p, &set);
            out += &format!(" (q {} {} {} {})", p, i, ch, pr.0);
        }
    }
    // Reverse<usize>: fewer matching versions is the greater priority
    let a = prov.prioritize(&0, &R::full());
    let b = prov.prioritize(&1, &R::full());
    out += &format!(" (prio-cmp {})", match a.cmp(&b) { std::cmp::Ordering::Less => "lt", std::cmp::Ordering::Equal => "eq", std::cmp::Ordering::Greater => "gt" });
    out
}

fn run(out: &mut Out, case: String) {
    let sx = crate::sexp::parse(&case).unwrap();
    // a panic of the evaluated code (or a failed harness expectation) is an observation: the driver reports it with this case
    let obs = std::panic::catch_unwind(std::panic::AssertUnwindSafe(|| eval(&sx))).unwrap_or_else(|_| "(harness-panic 1)".to_string());
    out.emit(&case, &obs);
}

pub fn generate(out: &mut Out, rng: &mut Rng, thorough: bool) {
    let full = vec![(Unbounded, Unbounded)];
    let two = vec![(Included(2u32), Included(2u32))];
    let one = vec![(Included(1u32), Included(1u32))];
    let dl: Vec<Vec<(u32, Vec<Seg>)>> = vec![
        vec![],
        vec![(0, full.clone())],
        vec![(1, two.clone())],
        vec![(0, one.clone()), (0, two.clone())],          // duplicate entry: the later one wins
        vec![(1, full.clone()), (2, vec![]), (1, one.clone())],
    ];
    let mut ops: Vec<String> = vec![];
    for p in 0..2 { for v in 1..=3 { for d in &dl {
        let ds: Vec<String> = d.iter().map(|(q, s)| format!("({} {})", q, segs_sx(s))).collect();
        ops.push(format!("({} {} ({}))", p, v, ds.join(" ")));
    } } }
    let n = ops.len();
    run(out, "(off ())".to_string());
    for a in 0..n { run(out, format!("(off ({}))", ops[a])); }
    for a in 0..n { for b in 0..n { run(out, format!("(off ({} {}))", ops[a], ops[b])); } }
    if thorough {
        for a in 0..n { for b in 0..n { for c in 0..n { run(out, format!("(off ({} {} {}))", ops[a], ops[b], ops[c])); } } }
    }
    for _ in 0..(if thorough { 100000 } else { 4000 }) {
        let len = 3 + rng.below(5);
        let seq: Vec<&str> = (0..len).map(|_| ops[rng.below(n as u64) as usize].as_str()).collect();
        run(out, format!("(off ({}))", seq.join(" ")));
    }
}
