//! C20: SemanticVersion against Model/SemVer.v
use crate::sexp::{self, Sx};
use crate::{Out, Rng};
use pubgrub::{SemanticVersion, VersionParseError};

const GRID: [u32; 6] = [0, 1, 9, 10, u32::MAX - 1, u32::MAX];
const PARTS: [&str; 15] = [
    "", "0", "007", "+1", "-1", "1a", "4294967295", "4294967296", "99999999999999999999",
    " 1", "+", "-", "٣", "12", "+0042",
];

fn kind(msg: &str) -> &'static str {
    match msg {
        "cannot parse integer from empty string" => "empty",
        "invalid digit found in string" => "invalid",
        "number too large to fit in target type" => "overflow",
        _ => "other",
    }
}

fn tup(v: SemanticVersion) -> String {
    let (a, b, c): (u32, u32, u32) = v.into();
    format!("{} {} {}", a, b, c)
}

fn parse_obs(s: &str) -> String {
    match s.parse::<SemanticVersion>() {
        Ok(v) => format!("(ok {})", tup(v)),
        Err(VersionParseError::NotThreeParts { full_version }) => {
            format!("(not3 {})", sexp::bytes(full_version.as_bytes()))
        }
        Err(VersionParseError::ParseIntError { full_version, version_part, parse_error }) => format!(
            "(interr {} {} {})",
            sexp::bytes(full_version.as_bytes()),
            sexp::bytes(version_part.as_bytes()),
            kind(&parse_error)
        ),
    }
}

fn ver(l: &[Sx]) -> SemanticVersion {
    SemanticVersion::new(l[0].int() as u32, l[1].int() as u32, l[2].int() as u32)
}

pub fn eval(c: &Sx) -> String {
    let l = c.list();
    match c.head() {
        "sv-parse" => {
            let b = sexp::get_bytes(&l[1]);
            parse_obs(std::str::from_utf8(&b).expect("utf8"))
        }
        "sv-display" => sexp::bytes(ver(&l[1..]).to_string().as_bytes()),
        "sv-roundtrip" => parse_obs(&ver(&l[1..]).to_string()),
        "sv-cmp" => {
            let (u, v) = (ver(&l[1..4]), ver(&l[4..7]));
            // Ord, PartialOrd and Eq must agree
            let c = u.cmp(&v);
            // a disagreement is an observation (the oracle reports it with this case as the failing input), not an abort
            if u.partial_cmp(&v) != Some(c) { return format!("{:?}-but-partial_cmp-is-{:?}", c, u.partial_cmp(&v)).to_lowercase(); }
            if (u == v) != (c == std::cmp::Ordering::Equal) { return format!("{:?}-but-eq-is-{}", c, u == v).to_lowercase(); }
            if v.cmp(&u) != c.reverse() { return format!("{:?}-but-reverse-is-{:?}", c, v.cmp(&u)).to_lowercase(); }
            format!("{:?}", c).to_lowercase()
        }
        "sv-tuple" => {
            let v = ver(&l[1..]);
            let t: (u32, u32, u32) = v.into();
            let v2: SemanticVersion = t.into();
            let v3: SemanticVersion = (&t).into();
            let v4: SemanticVersion = (&v).into();
            if !(v2 == v && v3 == v && v4 == v) { return "tuple-conversions-disagree".into(); }
            format!("({} {} {})", t.0, t.1, t.2)
        }
        "sv-bump" => {
            let which = l[1].atom().to_string();
            let v = ver(&l[2..]);
            let r = std::panic::catch_unwind(move || match which.as_str() {
                "patch" => v.bump_patch(),
                "minor" => v.bump_minor(),
                _ => v.bump_major(),
            });
            match r { Ok(v) => format!("(some {})", tup(v)), Err(_) => "panic".into() }
        }
        h => panic!("unknown case {}", h),
    }
}

fn run(out: &mut Out, case: String) {
    let sx = sexp::parse(&case).unwrap();
    // a panic of the evaluated code (or a failed harness expectation) is an observation: the driver reports it with this case
    let obs = std::panic::catch_unwind(std::panic::AssertUnwindSafe(|| eval(&sx))).unwrap_or_else(|_| "(harness-panic 1)".to_string());
    out.emit(&case, &obs);
}

pub fn generate(out: &mut Out, rng: &mut Rng, thorough: bool) {
    // constants and the three literal constructors
    assert_eq!(tup(SemanticVersion::zero()), "0 0 0");
    assert_eq!(tup(SemanticVersion::one()), "1 0 0");
    assert_eq!(tup(SemanticVersion::two()), "2 0 0");
    let mut vs = vec![];
    for a in GRID { for b in GRID { for c in GRID { vs.push((a, b, c)); } } }
    for &(a, b, c) in &vs {
        run(out, format!("(sv-display {} {} {})", a, b, c));
        run(out, format!("(sv-roundtrip {} {} {})", a, b, c));
        run(out, format!("(sv-tuple {} {} {})", a, b, c));
        // bumps only below u32::MAX (the property's guard; at MAX debug panics, release wraps)
        if c < u32::MAX { run(out, format!("(sv-bump patch {} {} {})", a, b, c)); }
        if b < u32::MAX { run(out, format!("(sv-bump minor {} {} {})", a, b, c)); }
        if a < u32::MAX { run(out, format!("(sv-bump major {} {} {})", a, b, c)); }
    }
    // ordering: all pairs (thorough) or a seeded sample plus all pairs of a sub-grid (quick)
    if thorough {
        for &(a, b, c) in &vs { for &(d, e, f) in &vs {
            run(out, format!("(sv-cmp {} {} {} {} {} {})", a, b, c, d, e, f));
        } }
    } else {
        let sub = [0u32, 1, u32::MAX];
        for a in sub { for b in sub { for c in sub { for d in sub { for e in sub { for f in sub {
            run(out, format!("(sv-cmp {} {} {} {} {} {})", a, b, c, d, e, f));
        } } } } } }
        for _ in 0..3000 {
            let p = vs[rng.below(vs.len() as u64) as usize];
            let q = vs[rng.below(vs.len() as u64) as usize];
            run(out, format!("(sv-cmp {} {} {} {} {} {})", p.0, p.1, p.2, q.0, q.1, q.2));
        }
    }
    // strings: every sequence of up to 3 (quick) / 4 (thorough) parts, plus a seeded sample of longer ones
    let maxlen = if thorough { 4 } else { 3 };
    let mut idx = vec![0usize; 0];
    fn emit_parts(out: &mut Out, idx: &[usize]) {
        let s: Vec<&str> = idx.iter().map(|&i| PARTS[i]).collect();
        let s = s.join(".");
        run(out, format!("(sv-parse {})", sexp::bytes(s.as_bytes())));
    }
    fn rec(out: &mut Out, idx: &mut Vec<usize>, maxlen: usize) {
        if !idx.is_empty() { emit_parts(out, idx); }
        if idx.len() == maxlen { return; }
        for i in 0..PARTS.len() { idx.push(i); rec(out, idx, maxlen); idx.pop(); }
    }
    rec(out, &mut idx, maxlen);
    for _ in 0..(if thorough { 20000 } else { 2000 }) {
        let n = 4 + rng.below(2) as usize;
        let v: Vec<usize> = (0..n).map(|_| rng.below(PARTS.len() as u64) as usize).collect();
        emit_parts(out, &v);
    }
    // random decimal strings around the u32 boundary
    for _ in 0..(if thorough { 20000 } else { 2000 }) {
        let mut part = |rng: &mut Rng| -> String {
            match rng.below(4) {
                0 => (rng.next() % 5_000_000_000).to_string(),
                1 => format!("{}{}", if rng.chance(1, 2) { "+" } else { "" }, rng.next() as u32),
                2 => format!("{:010}", rng.next() % 4_300_000_000),
                _ => (4294967290u64 + rng.below(12)).to_string(),
            }
        };
        let s = format!("{}.{}.{}", part(rng), part(rng), part(rng));
        run(out, format!("(sv-parse {})", sexp::bytes(s.as_bytes())));
    }
}
