//! C19: the serde feature (Range, SemanticVersion, OfflineDependencyProvider through serde_json; the legacy
//! interval encoding through serde_json and ron) against Model/Json.v.
//!
//! JSON trees are exchanged as s-expressions:
//!   null | true | false | (n 5) | (s 85 110 ...) | (a x ...) | (o ((107 ...) x) ...)      (object keys sorted bytewise)
use crate::ranges::{all_ranges, bound_sx, build, parse_segs, range_sx, segs_sx, Seg, R};
use crate::sexp::{self, Sx};
use crate::{Out, Rng};
use pubgrub::{
    resolve, DefaultStringReporter, Dependencies, DependencyProvider, OfflineDependencyProvider, PubGrubError, Range,
    Reporter, SemanticVersion,
};
use serde_json::Value;
use std::ops::Bound::{self, Excluded, Included, Unbounded};
use std::panic::{catch_unwind, AssertUnwindSafe};

type Prov = OfflineDependencyProvider<u32, R>;
type SvSeg = (Bound<SemanticVersion>, Bound<SemanticVersion>);

// ---------------------------------------------------------------------------------------------
// JSON <-> s-expression

pub fn json_sx(v: &Value) -> String {
    match v {
        Value::Null => "null".into(),
        Value::Bool(b) => b.to_string(),
        Value::Number(n) => {
            if let Some(u) = n.as_u64() { format!("(n {})", u) }
            else if let Some(i) = n.as_i64() { format!("(n {})", i) }
            else { "(float)".into() }
        }
        Value::String(s) => {
            let mut out = String::from("(s");
            for b in s.as_bytes() { out.push(' '); out.push_str(&b.to_string()); }
            out.push(')');
            out
        }
        Value::Array(l) => {
            let mut out = String::from("(a");
            for x in l { out.push(' '); out.push_str(&json_sx(x)); }
            out.push(')');
            out
        }
        Value::Object(m) => {
            let mut e: Vec<(&[u8], String)> = m.iter().map(|(k, x)| (k.as_bytes(), json_sx(x))).collect();
            e.sort();
            let mut out = String::from("(o");
            for (k, x) in e { out.push_str(&format!(" ({} {})", sexp::bytes(k), x)); }
            out.push(')');
            out
        }
    }
}

pub fn sx_json(s: &Sx) -> Value {
    match s {
        Sx::A(a) if a == "null" => Value::Null,
        Sx::A(a) if a == "true" => Value::Bool(true),
        Sx::A(a) if a == "false" => Value::Bool(false),
        Sx::A(a) => panic!("json atom {}", a),
        Sx::L(l) => match l[0].atom() {
            "n" => {
                let t = l[1].atom();
                if let Ok(u) = t.parse::<u64>() { Value::from(u) } else { Value::from(t.parse::<i64>().expect("json number")) }
            }
            "s" => Value::String(String::from_utf8(l[1..].iter().map(|x| x.int() as u8).collect()).expect("utf8")),
            "a" => Value::Array(l[1..].iter().map(sx_json).collect()),
            "o" => {
                let mut m = serde_json::Map::new();
                for e in &l[1..] {
                    let e = e.list();
                    let k = String::from_utf8(sexp::get_bytes(&e[0])).expect("utf8");
                    m.insert(k, sx_json(&e[1]));
                }
                Value::Object(m)
            }
            h => panic!("json head {}", h),
        },
    }
}

// ---------------------------------------------------------------------------------------------
// observations

/// every segment is valid, flattened bounds never decrease and only the first start / last end are unbounded:
/// `contains` (a binary search) is meaningful on such a segment list even when it is not canonical
fn ascending(segs: &[Seg]) -> bool {
    let n = segs.len();
    let mut last: Option<u32> = None;
    for (i, (s, e)) in segs.iter().enumerate() {
        // every segment is non-empty in the sense of range.rs::valid_segment
        match (s, e) {
            (Included(a), Included(b)) => { if a > b { return false; } }
            (Included(a) | Excluded(a), Included(b) | Excluded(b)) => { if a >= b { return false; } }
            _ => {}
        }
        for (j, b) in [s, e].into_iter().enumerate() {
            match b {
                Unbounded => { if !((i == 0 && j == 0) || (i == n - 1 && j == 1)) { return false; } }
                Included(v) | Excluded(v) => { if let Some(l) = last { if *v < l { return false; } } last = Some(*v); }
            }
        }
    }
    true
}

fn range_obs(r: &Result<R, String>) -> String {
    match r {
        Err(_) => "err".into(),
        Ok(r) => {
            let segs: Vec<Seg> = r.iter().map(|(s, e)| (s.clone(), e.clone())).collect();
            let mem = if ascending(&segs) {
                let bits: Vec<String> = (0u32..8).map(|v| (r.contains(&v) as u8).to_string()).collect();
                format!("b{}", bits.join(""))
            } else { "-".into() };
            format!("(ok {} {})", segs_sx(&segs), mem)
        }
    }
}

fn sv_t(v: &SemanticVersion) -> String {
    let (a, b, c): (u32, u32, u32) = (*v).into();
    format!("{} {} {}", a, b, c)
}
fn sv_bound_sx(b: &Bound<SemanticVersion>) -> String {
    match b { Included(v) => format!("(i {})", sv_t(v)), Excluded(v) => format!("(e {})", sv_t(v)), Unbounded => "u".into() }
}
fn sv_segs_sx(r: &Range<SemanticVersion>) -> String {
    let v: Vec<String> = r.iter().map(|(s, e)| format!("({} {})", sv_bound_sx(s), sv_bound_sx(e))).collect();
    format!("({})", v.join(" "))
}
fn sv_parse_bound(s: &Sx) -> Bound<SemanticVersion> {
    match s {
        Sx::A(a) if a == "u" => Unbounded,
        Sx::L(l) => {
            let v = SemanticVersion::new(l[1].int() as u32, l[2].int() as u32, l[3].int() as u32);
            if l[0].atom() == "i" { Included(v) } else { Excluded(v) }
        }
        _ => panic!("sv bound"),
    }
}
fn sv_range_obs(r: &Result<Range<SemanticVersion>, String>) -> String {
    match r { Err(_) => "err".into(), Ok(r) => format!("(ok {})", sv_segs_sx(r)) }
}

/// RON text of the abstract syntax (t x ...) tuple, (l x ...) list, (some x), none, (n 5), (s bytes)
fn ron_text(s: &Sx, style: i64, out: &mut String) {
    let (sep, trail) = match style { 0 => (",", ""), 1 => (", ", ""), _ => (",\n  ", ",\n") };
    match s {
        Sx::A(a) if a == "none" => out.push_str("None"),
        Sx::A(a) => panic!("ron atom {}", a),
        Sx::L(l) => match l[0].atom() {
            "n" => out.push_str(l[1].atom()),
            "s" => { out.push('"'); out.push_str(std::str::from_utf8(&l[1..].iter().map(|x| x.int() as u8).collect::<Vec<u8>>()).unwrap()); out.push('"'); }
            "some" => { out.push_str("Some("); ron_text(&l[1], style, out); out.push(')'); }
            h @ ("t" | "l") => {
                out.push(if h == "t" { '(' } else { '[' });
                for (i, x) in l[1..].iter().enumerate() {
                    if i > 0 { out.push_str(sep); }
                    ron_text(x, style, out);
                }
                if l.len() > 1 { out.push_str(trail); }
                out.push(if h == "t" { ')' } else { ']' });
            }
            h => panic!("ron head {}", h),
        },
    }
}

fn render_queries(prov: &Prov) -> String {
    // same observation as harness/src/offline.rs (C18), on an existing provider
    let mut out = String::new();
    let mut pk: Vec<u32> = prov.packages().cloned().collect();
    pk.sort();
    out += &format!("(packages ({}))", pk.iter().map(|x| x.to_string()).collect::<Vec<_>>().join(" "));
    for p in 0..3u32 {
        match prov.versions(&p) {
            None => out += &format!(" (versions {} none)", p),
            Some(it) => out += &format!(" (versions {} ({}))", p, it.map(|x| x.to_string()).collect::<Vec<_>>().join(" ")),
        }
        for v in 1..=3u32 {
            match prov.get_dependencies(&p, &v).unwrap() {
                Dependencies::Unavailable(_) => out += &format!(" (deps {} {} unavailable)", p, v),
                Dependencies::Available(m) => {
                    let mut e: Vec<(u32, String)> = m.iter().map(|(q, r)| (*q, range_sx(r))).collect();
                    e.sort();
                    out += &format!(" (deps {} {} ({}))", p, v, e.iter().map(|(q, r)| format!("({} {})", q, r)).collect::<Vec<_>>().join(" "));
                }
            }
        }
        for (i, s) in crate::offline::query_sets().iter().enumerate() {
            let set = build(0, s);
            let ch = match prov.choose_version(&p, &set).unwrap() { Some(v) => v.to_string(), None => "none".into() };
            let pr = prov.prioritize(&p, &set);
            out += &format!(" (q {} {} {} {})", p, i, ch, pr.0);
        }
    }
    let a = prov.prioritize(&0, &R::full());
    let b = prov.prioritize(&1, &R::full());
    out += &format!(" (prio-cmp {})", match a.cmp(&b) { std::cmp::Ordering::Less => "lt", std::cmp::Ordering::Equal => "eq", std::cmp::Ordering::Greater => "gt" });
    out
}

/// outcome of resolve as text: the solution as a sorted list, or the error kind with the default report
fn resolve_obs<P: pubgrub::Package + Ord, DP: DependencyProvider<P = P, VS = R, V = u32, M = String>>(prov: &DP, p: P, v: u32) -> (String, String) {
    match catch_unwind(AssertUnwindSafe(|| resolve(prov, p, v))) {
        Err(_) => ("panic".into(), String::new()),
        Ok(Ok(sol)) => {
            let mut s: Vec<(P, u32)> = sol.into_iter().collect();
            s.sort();
            (format!("ok {}", s.iter().map(|(p, v)| format!("{}@{}", p, v)).collect::<Vec<_>>().join(",")), String::new())
        }
        Ok(Err(PubGrubError::NoSolution(t))) => ("nosolution".into(), DefaultStringReporter::report(&t)),
        Ok(Err(e)) => (format!("error {}", e), String::new()),
    }
}

/// same kind of outcome (Ok / NoSolution / other error / panic), and a solution found on the
/// deserialized provider is a solution of the original registry (root selected, every selected version offered
/// with available dependencies, every dependency satisfied)
fn same_outcome<P: pubgrub::Package + Ord, DP: DependencyProvider<P = P, VS = R, V = u32, M = String>>(
    orig: &DP, other: &DP, p: P, v: u32, r0: &(String, String), r1: &(String, String)) -> bool {
    let kind = |s: &str| s.split(' ').next().unwrap().to_string();
    if kind(&r0.0) != kind(&r1.0) { return false; }
    if let Ok(Ok(sol)) = catch_unwind(AssertUnwindSafe(|| resolve(other, p.clone(), v))) {
        if sol.get(&p) != Some(&v) { return false; }
        for (pp, vv) in &sol {
            match orig.get_dependencies(pp, vv) {
                Ok(Dependencies::Available(ds)) => for (dp, dr) in &ds {
                    if !sol.get(dp).map(|x| dr.contains(x)).unwrap_or(false) { return false; }
                },
                _ => return false,
            }
        }
    }
    true
}

fn build_prov(ops: &Sx) -> Prov {
    let mut prov: Prov = OfflineDependencyProvider::new();
    for op in ops.list() {
        let o = op.list();
        let (p, v) = (o[0].int() as u32, o[1].int() as u32);
        let deps: Vec<(u32, R)> = o[2].list().iter().map(|d| {
            let d = d.list();
            (d[0].int() as u32, build(0, &parse_segs(&d[1])))
        }).collect();
        prov.add_dependencies(p, v, deps);
    }
    prov
}

const NPKG: u32 = 6;

pub fn eval(c: &Sx) -> String {
    let l = c.list();
    match c.head() {
        // (rt-range tree segs): Range<u32> -> JSON -> Range<u32>
        "rt-range" => {
            let r = build(l[1].int() as u64, &parse_segs(&l[2]));
            let v = serde_json::to_value(&r).expect("to_value");
            let back: Result<R, String> = serde_json::from_value(v.clone()).map_err(|e| e.to_string());
            let text = serde_json::to_string(&r).expect("to_string");
            assert_eq!(serde_json::from_str::<Value>(&text).expect("reparse"), v);
            let back2: Result<R, String> = serde_json::from_str(&text).map_err(|e| e.to_string());
            let eq = back.as_ref().map(|b| *b == r).unwrap_or(false) && back2.as_ref().map(|b| *b == r).unwrap_or(false);
            format!("(built {}) (enc {}) (dec {}) (str {}) (eq {})", range_sx(&r), json_sx(&v), range_obs(&back), range_obs(&back2), eq as u8)
        }
        // (dec-range json): Range<u32> from an arbitrary JSON tree, through the Value and through its text
        "dec-range" => {
            let v = sx_json(&l[1]);
            let a: Result<R, String> = serde_json::from_value(v.clone()).map_err(|e| e.to_string());
            let b: Result<R, String> = serde_json::from_str(&v.to_string()).map_err(|e| e.to_string());
            format!("(val {}) (str {})", range_obs(&a), range_obs(&b))
        }
        // (dec-ron style ast): Range<u32> from RON text
        "dec-ron" => {
            let mut text = String::new();
            ron_text(&l[2], l[1].int(), &mut text);
            let a: Result<R, String> = ron::de::from_str(&text).map_err(|e| e.to_string());
            format!("(val {})", range_obs(&a))
        }
        // (dec-ron-sv style ast): Range<SemanticVersion> from RON text
        "dec-ron-sv" => {
            let mut text = String::new();
            ron_text(&l[2], l[1].int(), &mut text);
            let a: Result<Range<SemanticVersion>, String> = ron::de::from_str(&text).map_err(|e| e.to_string());
            format!("(val {})", sv_range_obs(&a))
        }
        // (sv-json a b c)
        "sv-json" => {
            let sv = SemanticVersion::new(l[1].int() as u32, l[2].int() as u32, l[3].int() as u32);
            // a serialization failure is an observation (the oracle reports it with this case), not an abort
            let v = match serde_json::to_value(&sv) { Ok(v) => v, Err(_) => return "(enc err) (dec err) (str err) (eq 0)".into() };
            let back: Result<SemanticVersion, String> = serde_json::from_value(v.clone()).map_err(|e| e.to_string());
            let back2: Result<SemanticVersion, String> = match serde_json::to_string(&sv) { Ok(t) => serde_json::from_str(&t).map_err(|e| e.to_string()), Err(e) => Err(e.to_string()) };
            let f = |r: &Result<SemanticVersion, String>| match r { Ok(v) => format!("(ok {})", sv_t(v)), Err(_) => "err".into() };
            let eq = back.as_ref().map(|b| *b == sv).unwrap_or(false) && back2.as_ref().map(|b| *b == sv).unwrap_or(false);
            format!("(enc {}) (dec {}) (str {}) (eq {})", json_sx(&v), f(&back), f(&back2), eq as u8)
        }
        // (dec-sv json)
        "dec-sv" => {
            let v = sx_json(&l[1]);
            let a: Result<SemanticVersion, String> = serde_json::from_value(v).map_err(|e| e.to_string());
            format!("(val {})", match a { Ok(v) => format!("(ok {})", sv_t(&v)), Err(_) => "err".into() })
        }
        // (rt-range-sv segs): Range<SemanticVersion>, segments given with (i a b c) / (e a b c) / u bounds
        "rt-range-sv" => {
            let segs: Vec<SvSeg> = l[1].list().iter().map(|p| { let q = p.list(); (sv_parse_bound(&q[0]), sv_parse_bound(&q[1])) }).collect();
            let mut r = Range::<SemanticVersion>::empty();
            for s in &segs { r = r.union(&Range::from_range_bounds((s.0.clone(), s.1.clone()))); }
            let v = serde_json::to_value(&r).expect("to_value");
            let back: Result<Range<SemanticVersion>, String> = serde_json::from_value(v.clone()).map_err(|e| e.to_string());
            let back2: Result<Range<SemanticVersion>, String> = serde_json::from_str(&serde_json::to_string(&r).unwrap()).map_err(|e| e.to_string());
            let eq = back.as_ref().map(|b| *b == r).unwrap_or(false) && back2.as_ref().map(|b| *b == r).unwrap_or(false);
            format!("(built {}) (enc {}) (dec {}) (str {}) (eq {})", sv_segs_sx(&r), json_sx(&v), sv_range_obs(&back), sv_range_obs(&back2), eq as u8)
        }
        // (dec-range-sv json)
        "dec-range-sv" => {
            let v = sx_json(&l[1]);
            let a: Result<Range<SemanticVersion>, String> = serde_json::from_value(v).map_err(|e| e.to_string());
            format!("(val {})", sv_range_obs(&a))
        }
        // (prov (op...)): provider -> JSON -> provider; queries and resolve before/after
        "prov" => {
            let prov = build_prov(&l[1]);
            let v = serde_json::to_value(&prov).expect("to_value");
            let back: Result<Prov, String> = serde_json::from_value(v.clone()).map_err(|e| e.to_string());
            let back2: Result<Prov, String> = serde_json::from_str(&serde_json::to_string(&prov).unwrap()).map_err(|e| e.to_string());
            let q0 = render_queries(&prov);
            let (q1, same, strsame) = match (&back, &back2) {
                (Ok(b), Ok(b2)) => {
                    let q1 = render_queries(b);
                    let same = q1 == q0 && serde_json::to_value(b).unwrap() == v;
                    let strsame = render_queries(b2) == q0 && serde_json::to_value(b2).unwrap() == v;
                    (format!("({})", q1), same, strsame)
                }
                _ => ("err".into(), false, false),
            };
            format!("(enc {}) (q {}) (same {}) (str-same {})", json_sx(&v), q1, same as u8, strsame as u8)
        }
        // (prov-resolve ops): resolve every root on the original and on the two deserialized providers; same kind of
        // outcome, and every solution found after the round trip is a solution of the original registry.
        // (prov-resolve-identical ops): the strict reading -- the very same solution map / the same report text
        h @ ("prov-resolve" | "prov-resolve-identical") => {
            let prov = build_prov(&l[1]);
            let back: Result<Prov, String> = serde_json::from_value(serde_json::to_value(&prov).unwrap()).map_err(|e| e.to_string());
            let back2: Result<Prov, String> = serde_json::from_str(&serde_json::to_string(&prov).unwrap()).map_err(|e| e.to_string());
            let (b, b2) = match (back, back2) { (Ok(b), Ok(b2)) => (b, b2), _ => return "(outcome-same 0)".into() };
            let mut outcome_same = true;
            let mut diff = String::new();
            for p in 0..NPKG { for ver in 1..=3u32 {
                let r0 = resolve_obs(&prov, p, ver);
                for (name, other) in [("value", &b), ("text", &b2)] {
                    let r1 = resolve_obs(other, p, ver);
                    if !same_outcome(&prov, other, p, ver, &r0, &r1) { outcome_same = false; }
                    if r1 != r0 && diff.is_empty() {
                        diff = format!("{} (root {} {}) (via {}) (before {} {}) (after {} {})",
                            if r1.0 != r0.0 { "solution" } else { "explanation" }, p, ver, name,
                            sexp::bytes(r0.0.as_bytes()), sexp::bytes(r0.1.as_bytes()), sexp::bytes(r1.0.as_bytes()), sexp::bytes(r1.1.as_bytes()));
                    }
                }
            } }
            if h == "prov-resolve" { format!("(outcome-same {})", outcome_same as u8) }
            else { format!("(outcome-same {}) (identical {})", outcome_same as u8, if diff.is_empty() { "all".to_string() } else { diff }) }
        }
        // (dec-prov json): provider from an arbitrary JSON tree, re-serialized
        "dec-prov" => {
            let v = sx_json(&l[1]);
            let a: Result<Prov, String> = serde_json::from_value(v.clone()).map_err(|e| e.to_string());
            let b: Result<Prov, String> = serde_json::from_str(&v.to_string()).map_err(|e| e.to_string());
            let f = |r: &Result<Prov, String>| match r { Ok(p) => format!("(ok {})", json_sx(&serde_json::to_value(p).unwrap())), Err(_) => "err".into() };
            format!("(val {}) (str {})", f(&a), f(&b))
        }
        // (fixture name): a legacy-encoded registry of the repository (RON, as the bench reads it):
        // decode, JSON round trip, resolve every root before/after
        h @ ("fixture" | "fixture-identical") => {
            let repo = std::env::var("VERIF_REPO").unwrap_or_else(|_| "/repo".into());
            let path = format!("{}/test-examples/{}", repo, l[1].atom());
            let data = match std::fs::read_to_string(&path) { Ok(d) => d, Err(_) => return "(ron-ok 0)".into() };
            type FP = OfflineDependencyProvider<u16, R>;
            let p: FP = match ron::de::from_str(&data) { Ok(p) => p, Err(_) => return "(ron-ok 0)".into() };
            let v = serde_json::to_value(&p).expect("to_value");
            let text = serde_json::to_string(&p).expect("to_string");
            let (p1, p2): (FP, FP) = match (serde_json::from_value(v.clone()), serde_json::from_str(&text)) {
                (Ok(a), Ok(b)) => (a, b),
                _ => return "(ron-ok 1) (json-rt-same 0)".into(),
            };
            let rt_same = serde_json::to_value(&p1).unwrap() == v && serde_json::to_value(&p2).unwrap() == v;
            // every legacy interval of the text must have become Included(start)..Excluded(end) / Included(start)..Unbounded
            let mut legacy_ok = true;
            let mut pk: Vec<u16> = p.packages().cloned().collect();
            pk.sort();
            let (mut roots, mut outcome_same, mut identical, mut sol_diffs) = (0u32, 0u32, 0u32, 0u32);
            let mut first_diff = String::new();
            for q in &pk { for ver in p.versions(q).unwrap() {
                if let Dependencies::Available(ds) = p.get_dependencies(q, ver).unwrap() {
                    for (_, r) in &ds { for (s, e) in r.iter() {
                        if !matches!((s, e), (Included(_), Excluded(_)) | (Included(_), Unbounded)) { legacy_ok = false; }
                    } }
                }
                roots += 1;
                let r0 = resolve_obs(&p, *q, *ver);
                let mut same_kind = true;
                let mut ident = true;
                for (name, other) in [("value", &p1), ("text", &p2)] {
                    let r1 = resolve_obs(other, *q, *ver);
                    if !same_outcome(&p, other, *q, *ver, &r0, &r1) { same_kind = false; }
                    if r1 != r0 {
                        ident = false;
                        if r1.0 != r0.0 { sol_diffs += 1; }
                        if first_diff.is_empty() { first_diff = format!("{}@{}-via-{}", q, ver, name); }
                    }
                }
                if same_kind { outcome_same += 1; }
                if ident { identical += 1; }
            } }
            if h == "fixture" {
                format!("(ron-ok 1) (json-rt-same {}) (legacy-shape {}) (outcome-same {})",
                    rt_same as u8, legacy_ok as u8, (outcome_same == roots) as u8)
            } else {
                format!("(ron-ok 1) (identical {})",
                    if identical == roots { "all".to_string() } else { format!("{} {} (first {}) (different-solutions {})", identical, roots, first_diff, sol_diffs) })
            }
        }
        h => panic!("unknown case {}", h),
    }
}

fn run(out: &mut Out, case: String) {
    let sx = sexp::parse(&case).unwrap_or_else(|| panic!("malformed case {}", case));
    // a panic inside the evaluated code (e.g. a serialization that fails where the harness expects success) is an
    // observation: the oracle reports it with this case as the failing input
    let obs = std::panic::catch_unwind(std::panic::AssertUnwindSafe(|| eval(&sx))).unwrap_or_else(|_| "(harness-panic 1)".to_string());
    out.emit(&case, &obs);
}

// ---------------------------------------------------------------------------------------------
// generators

fn js(s: &str) -> String {
    let mut out = String::from("(s");
    for b in s.as_bytes() { out.push(' '); out.push_str(&b.to_string()); }
    out.push(')');
    out
}
fn jo(entries: &[(&str, String)]) -> String {
    let e: Vec<String> = entries.iter().map(|(k, v)| format!("({} {})", sexp::bytes(k.as_bytes()), v)).collect();
    format!("(o{}{})", if e.is_empty() { "" } else { " " }, e.join(" "))
}
fn ja(items: &[String]) -> String { format!("(a{}{})", if items.is_empty() { "" } else { " " }, items.join(" ")) }
fn jn(n: i64) -> String { format!("(n {})", n) }

/// JSON atoms that can stand where a bound, a version or an Option<version> is expected (u32 versions)
fn atoms_u32() -> Vec<String> {
    vec![
        js("Unbounded"), jo(&[("Included", jn(1))]), jo(&[("Excluded", jn(3))]), jo(&[("Included", jn(5))]),
        jn(1), jn(3), jn(5), "null".into(),
        jo(&[("Unbounded", "null".into())]), js("Included"), jo(&[("included", jn(1))]), jo(&[("Included", "null".into())]),
        jo(&[("Included", jn(1)), ("Excluded", jn(3))]), jo(&[("Unbounded", jn(1))]), "true".into(), js("1"),
        jn(-1), jn(4294967295), jn(4294967296), ja(&[jn(1)]), jo(&[]), jo(&[("Included", jo(&[("Included", jn(1))]))]),
        jo(&[("Excluded", jn(4294967296))]), js("unbounded"), js(""), jo(&[("Excluded", jn(-1))]),
    ]
}
fn atoms_sv() -> Vec<String> {
    vec![
        js("Unbounded"), jo(&[("Included", js("1.2.3"))]), jo(&[("Excluded", js("2.0.0"))]),
        js("1.2.3"), js("2.0.0"), "null".into(), js("1.2"), js("+1.02.3"), js("4294967295.0.0"), js("4294967296.0.0"),
        jn(1), jo(&[("Included", jn(1))]), js(""), jo(&[("Unbounded", "null".into())]), jo(&[("Included", js("1.2"))]),
        js("0.0.0"),
    ]
}

fn svb(b: &Bound<u32>, vals: &[(u32, u32, u32)]) -> String {
    let t = |v: &u32| { let (a, b, c) = vals[(*v / 10 - 1) as usize]; format!("{} {} {}", a, b, c) };
    match b { Included(v) => format!("(i {})", t(v)), Excluded(v) => format!("(e {})", t(v)), Unbounded => "u".into() }
}

fn dep_sets() -> Vec<Vec<Seg>> {
    vec![
        vec![(Unbounded, Unbounded)],
        vec![(Included(1), Included(1))],
        vec![(Included(2), Included(2))],
        vec![(Included(2), Unbounded)],
        vec![(Unbounded, Excluded(3))],
        vec![(Unbounded, Excluded(2)), (Excluded(2), Unbounded)],
        vec![(Included(1), Excluded(3))],
        vec![],
    ]
}

pub fn generate(out: &mut Out, rng: &mut Rng, thorough: bool) {
    // (a) every canonical range, three construction trees
    for a in all_ranges(3).iter() { for t in 0..3 { run(out, format!("(rt-range {} {})", t, segs_sx(a))); } }
    if thorough { for a in all_ranges(4).iter() { run(out, format!("(rt-range {} {})", rng.below(3), segs_sx(a))); } }

    // (b, c) arbitrary JSON trees: legacy forms, the new form, mixtures and malformed inputs
    let at = atoms_u32();
    let mut intervals: Vec<String> = vec![];
    for x in &at { for y in &at { intervals.push(ja(&[x.clone(), y.clone()])); } }
    let odd: Vec<String> = vec![
        ja(&[]), ja(&[jn(1)]), ja(&[jn(1), jn(3), jn(5)]), ja(&[js("Unbounded")]), ja(&[js("Unbounded"), js("Unbounded"), js("Unbounded")]),
        ja(&[jn(1), "null".into(), "null".into()]), jn(1), "null".into(), js("Unbounded"), jo(&[("0", jn(1)), ("1", jn(3))]),
        jo(&[("Included", jn(1))]), "true".into(),
    ];
    for i in intervals.iter().chain(odd.iter()) { run(out, format!("(dec-range {})", ja(&[i.clone()]))); }
    for top in ["null", "true", "(n 5)", "(s 85 110 98 111 117 110 100 101 100)", "(o)", "(a)", "(o ((48) (a (n 1) (n 3))))"] {
        run(out, format!("(dec-range {})", top));
    }
    // two and three intervals: a core of well-formed and ill-formed ones, all pairs; the rest sampled
    let core: Vec<String> = vec![
        ja(&[jn(1), jn(3)]), ja(&[jn(5), "null".into()]), ja(&[jn(3), jn(5)]), ja(&[jn(3), jn(1)]), ja(&[jn(1), jn(1)]),
        ja(&[js("Unbounded"), jo(&[("Excluded", jn(3))])]), ja(&[jo(&[("Included", jn(5))]), js("Unbounded")]),
        ja(&[jo(&[("Included", jn(1))]), jo(&[("Included", jn(1))])]), ja(&[js("Unbounded"), js("Unbounded")]),
        ja(&[jn(1)]), ja(&[jn(1), js("Unbounded")]), ja(&[jo(&[("Included", jn(1))]), jn(3)]), "null".into(),
    ];
    for x in &core { for y in &core { run(out, format!("(dec-range {})", ja(&[x.clone(), y.clone()]))); } }
    for _ in 0..(if thorough { 60000 } else { 4000 }) {
        let n = 2 + rng.below(3);
        let l: Vec<String> = (0..n).map(|_| {
            if rng.chance(1, 8) { odd[rng.below(odd.len() as u64) as usize].clone() }
            else if rng.chance(1, 2) { core[rng.below(core.len() as u64) as usize].clone() }
            else { intervals[rng.below(intervals.len() as u64) as usize].clone() }
        }).collect();
        run(out, format!("(dec-range {})", ja(&l)));
    }

    // (b) legacy forms in RON, in the three layouts found in fixtures / tests
    let rn = |n: i64| format!("(n {})", n);
    let firsts = [rn(1), rn(3), rn(5), rn(0), rn(4294967295), rn(4294967296), rn(-1)];
    let seconds: Vec<String> = vec!["none".into(), format!("(some {})", rn(3)), format!("(some {})", rn(5)), format!("(some {})", rn(1)),
        rn(3), format!("(some {})", rn(4294967296)), format!("(some {})", rn(-1))];
    let mut ron_elems: Vec<String> = vec![];
    for a in &firsts { for b in &seconds { ron_elems.push(format!("(t {} {})", a, b)); } }
    ron_elems.push(format!("(t {})", rn(1)));
    ron_elems.push(format!("(t {} (some {}) {})", rn(1), rn(3), rn(5)));
    ron_elems.push(format!("(l {} (some {}))", rn(1), rn(3)));
    ron_elems.push(format!("(t {} none none)", rn(1)));
    ron_elems.push(rn(1));
    for style in 0..3 {
        run(out, format!("(dec-ron {} (l))", style));
        for e in &ron_elems { run(out, format!("(dec-ron {} (l {}))", style, e)); }
    }
    for _ in 0..(if thorough { 20000 } else { 2000 }) {
        let n = 2 + rng.below(3);
        let l: Vec<&str> = (0..n).map(|_| ron_elems[rng.below(ron_elems.len() as u64) as usize].as_str()).collect();
        run(out, format!("(dec-ron {} (l {}))", rng.below(3), l.join(" ")));
    }
    run(out, format!("(dec-ron 0 (t {} (some {})))", rn(1), rn(3)));   // not a sequence at top level

    // (d) SemanticVersion
    const GRID: [u32; 6] = [0, 1, 9, 10, u32::MAX - 1, u32::MAX];
    for a in GRID { for b in GRID { for c in GRID { run(out, format!("(sv-json {} {} {})", a, b, c)); } } }
    const PARTS: [&str; 12] = ["", "0", "007", "+1", "-1", "1a", "4294967295", "4294967296", " 1", "+", "12", "Unbounded"];
    for a in PARTS { run(out, format!("(dec-sv {})", js(a)));
        for b in PARTS { run(out, format!("(dec-sv {})", js(&format!("{}.{}", a, b))));
            for c in PARTS { run(out, format!("(dec-sv {})", js(&format!("{}.{}.{}", a, b, c)))); }
            run(out, format!("(dec-sv {})", js(&format!("{}.{}.1.2", a, b))));
        }
    }
    for j in ["null", "true", "(n 1)", "(a (s 49 46 50 46 51))", "(o)", "(a (n 1) (n 2) (n 3))"] { run(out, format!("(dec-sv {})", j)); }
    let triples: [[(u32, u32, u32); 3]; 3] = [
        [(0, 0, 0), (0, 0, 1), (u32::MAX, u32::MAX, u32::MAX)],
        [(1, 2, 3), (1, 10, 0), (2, 0, 0)],
        [(0, u32::MAX, u32::MAX), (1, 0, 0), (u32::MAX - 1, 9, 10)],
    ];
    for vals in &triples {
        for a in all_ranges(if thorough { 3 } else { 2 }).iter() {
            let segs: Vec<String> = a.iter().map(|(s, e)| format!("({} {})", svb(s, vals), svb(e, vals))).collect();
            run(out, format!("(rt-range-sv ({}))", segs.join(" ")));
        }
    }
    let asv = atoms_sv();
    for x in &asv { for y in &asv {
        run(out, format!("(dec-range-sv {})", ja(&[ja(&[x.clone(), y.clone()])])));
    } }
    run(out, format!("(dec-range-sv {})", ja(&[ja(&[js("1.2.3"), js("2.0.0")]), ja(&[js("3.0.0"), "null".into()])])));
    let rs = |s: &str| js(s);
    for style in 0..3 {
        run(out, format!("(dec-ron-sv {} (l (t {} (some {})) (t {} none)))", style, rs("1.2.3"), rs("2.0.0"), rs("3.0.0")));
        run(out, format!("(dec-ron-sv {} (l (t {} (some {}))))", style, rs("+1.02.3"), rs("4294967295.0.0")));
        run(out, format!("(dec-ron-sv {} (l (t {} (some {}))))", style, rs("1.2"), rs("2.0.0")));
        run(out, format!("(dec-ron-sv {} (l (t {} {})))", style, rs("1.2.3"), rs("2.0.0")));
    }

    // (e) providers: the histories of the C18 stream ...
    let full = vec![(Unbounded, Unbounded)];
    let two = vec![(Included(2u32), Included(2u32))];
    let one = vec![(Included(1u32), Included(1u32))];
    let dl: Vec<Vec<(u32, Vec<Seg>)>> = vec![
        vec![],
        vec![(0, full.clone())],
        vec![(1, two.clone())],
        vec![(0, one.clone()), (0, two.clone())],
        vec![(1, full.clone()), (2, vec![]), (1, one.clone())],
    ];
    let opstr = |p: u32, v: u32, d: &Vec<(u32, Vec<Seg>)>| -> String {
        let ds: Vec<String> = d.iter().map(|(q, s)| format!("({} {})", q, segs_sx(s))).collect();
        format!("({} {} ({}))", p, v, ds.join(" "))
    };
    let mut ops: Vec<String> = vec![];
    for p in 0..2 { for v in 1..=3 { for d in &dl { ops.push(opstr(p, v, d)); } } }
    let n = ops.len();
    run(out, "(prov ())".to_string());
    for a in 0..n { run(out, format!("(prov ({}))", ops[a])); run(out, format!("(prov-resolve ({}))", ops[a])); }
    for a in 0..n { for b in 0..n { if thorough || (a + b) % 2 == 0 { run(out, format!("(prov ({} {}))", ops[a], ops[b])); } } }
    // ... and random small registries (up to NPKG packages x 3 versions, up to 5 dependencies each) for the resolve comparison
    let sets = dep_sets();
    for _ in 0..(if thorough { 100000 } else { 6000 }) {
        let npk = 2 + rng.below(NPKG as u64 - 1) as u32;
        let nops = 2 + rng.below(3 * npk as u64);
        let mut seq: Vec<String> = vec![];
        for _ in 0..nops {
            let p = rng.below(npk as u64) as u32;
            let v = 1 + rng.below(3) as u32;
            let nd = rng.below(6);
            let mut d: Vec<(u32, Vec<Seg>)> = vec![];
            for _ in 0..nd {
                let extra = if rng.chance(1, 10) { 1 } else { 0 };
                let q = rng.below(npk as u64 + extra) as u32;
                let ns = if rng.chance(1, 6) { sets.len() as u64 } else { sets.len() as u64 - 1 };
                let si = rng.below(ns) as usize;
                // self-dependencies are rare (they trigger the separate finding F1 of C01/C14)
                if q != p || rng.chance(1, 20) { d.push((q, sets[si].clone())); }
            }
            seq.push(opstr(p, v, &d));
        }
        run(out, format!("(prov ({}))", seq.join(" ")));
        run(out, format!("(prov-resolve ({}))", seq.join(" ")));
        run(out, format!("(prov-resolve-identical ({}))", seq.join(" ")));
    }

    // (c) malformed / legacy provider trees
    let r13 = ja(&[ja(&[jn(1), jn(3)])]);
    let newr = ja(&[ja(&[jo(&[("Included", jn(1))]), js("Unbounded")])]);
    let keys = ["0", "1", "10", "4294967295", "4294967296", "01", "+1", "-1", "", " 1", "1.0", "1e0", "-0", "a", "00"];
    for k in keys {
        run(out, format!("(dec-prov {})", jo(&[(k, jo(&[]))])));
        run(out, format!("(dec-prov {})", jo(&[("1", jo(&[(k, jo(&[]))]))])));
        run(out, format!("(dec-prov {})", jo(&[("1", jo(&[("2", jo(&[(k, r13.clone())]))]))])));
    }
    for inner in [r13.clone(), newr.clone(), ja(&[]), "null".into(), jn(1), ja(&[jn(1)]), jo(&[])] {
        run(out, format!("(dec-prov {})", jo(&[("1", jo(&[("2", jo(&[("3", inner.clone())]))])), ("10", jo(&[("1", jo(&[]))]))])));
    }
    for top in ["null", "(a)", "(n 1)", "(o)", "(s 49)", "(o ((49) (a)))", "(o ((49) null))", "(o ((49) (o ((50) (a)))))", "(o ((49) (o ((50) null))))"] {
        run(out, format!("(dec-prov {})", top));
    }

    // the repository's legacy-encoded registry (RON), JSON round trip, resolve on every root
    run(out, "(fixture large_case_u16_NumberVersion.ron)".to_string());
    run(out, "(fixture-identical large_case_u16_NumberVersion.ron)".to_string());
    let _ = bound_sx;
}
