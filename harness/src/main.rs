//! Correspondence / hunter harness for the Coq model of pubgrub (see /verif/DESIGN.md).
//! Usage: pgverif <domain> <tier> <seed>          -- generate cases, print "CASE\tOBS" lines
//!        pgverif <domain> --cases <file>         -- evaluate the cases of a file (one per line)
#![allow(clippy::all)]
mod sexp;
mod semver;
mod ranges;
mod terms;
mod offline;
mod heapq;
mod solverb;
mod serde_dom;
mod solver;
mod solver_replay;
mod report;

use std::io::{BufRead, Write};

pub struct Rng(pub u64);
impl Rng {
    pub fn next(&mut self) -> u64 {
        self.0 = self.0.wrapping_add(0x9E3779B97F4A7C15);
        let mut z = self.0;
        z = (z ^ (z >> 30)).wrapping_mul(0xBF58476D1CE4E5B9);
        z = (z ^ (z >> 27)).wrapping_mul(0x94D049BB133111EB);
        z ^ (z >> 31)
    }
    pub fn below(&mut self, n: u64) -> u64 {
        if n == 0 { 0 } else { self.next() % n }
    }
    pub fn chance(&mut self, num: u64, den: u64) -> bool {
        self.below(den) < num
    }
}

pub struct Out {
    pub w: std::io::BufWriter<std::io::Stdout>,
    pub n: u64,
}
impl Out {
    pub fn emit(&mut self, case: &str, obs: &str) {
        self.n += 1;
        writeln!(self.w, "{}\t{}", case, obs).unwrap();
    }
}

fn main() {
    let args: Vec<String> = std::env::args().collect();
    if args.len() < 4 {
        eprintln!("usage: pgverif <domain> <tier> <seed> | pgverif <domain> --cases <file>");
        std::process::exit(2);
    }
    let domain = args[1].as_str();
    let mut out = Out { w: std::io::BufWriter::new(std::io::stdout()), n: 0 };
    // panics inside evaluated code are caught by the domains; silence the default hook
    std::panic::set_hook(Box::new(|_| {}));
    if args[2] == "--cases" {
        let f = std::fs::File::open(&args[3]).expect("cases file");
        for line in std::io::BufReader::new(f).lines() {
            let line = line.unwrap();
            let case = line.split('\t').next().unwrap().trim();
            if case.is_empty() { continue; }
            let sx = sexp::parse(case).expect("malformed case");
            let obs = match domain {
                "semver" => semver::eval(&sx),
                "ranges" | "rangeord" | "rangeq" => ranges::eval(&sx),
                "terms" | "bitset" => terms::eval(&sx),
                "offline" => offline::eval(&sx),
                "heap" => heapq::eval(&sx),
                "solverb" => solverb::eval(&sx),
                "serde" => serde_dom::eval(&sx),
                "solver" | "faults" => solver::eval(&sx),
                "report" | "collapse" => report::eval(&sx),
                _ => panic!("unknown domain"),
            };
            out.emit(case, &obs);
        }
    } else {
        let tier = args[2].as_str();
        let seed: u64 = args[3].parse().expect("seed");
        // "widen" = the thorough generators at one eighth of their volume (the bounded second search of ./check)
        let thorough = tier == "thorough" || tier == "widen";
        if tier == "widen" { solver::DIV.store(8, std::sync::atomic::Ordering::SeqCst); }
        let mut rng = Rng(seed ^ 0x5851F42D4C957F2D);
        match domain {
            "semver" => semver::generate(&mut out, &mut rng, thorough),
            "ranges" | "rangeord" | "rangeq" => ranges::generate(&mut out, &mut rng, thorough, domain),
            "terms" | "bitset" => terms::generate(&mut out, &mut rng, thorough, domain),
            "offline" => offline::generate(&mut out, &mut rng, thorough),
            "heap" => heapq::generate(&mut out, &mut rng, thorough),
            "solverb" => solverb::generate(&mut out, &mut rng, thorough),
            "serde" => serde_dom::generate(&mut out, &mut rng, thorough),
            "solver" | "faults" => solver::generate(&mut out, &mut rng, thorough, domain),
            "report" | "collapse" => report::generate(&mut out, &mut rng, thorough, domain),
            _ => panic!("unknown domain"),
        }
    }
    out.w.flush().unwrap();
}
