//! Replay of one recorded solver case: resolve is re-run against a provider that answers from the
//! recorded trace (call i gets the i-th recorded answer when the kinds agree).
use crate::ranges::{build, parse_segs, R};
use crate::sexp::Sx;
use crate::solver::*;
use pubgrub::{resolve, Dependencies, DependencyProvider, PubGrubError};
use std::cell::RefCell;

fn parse_ev(e: &Sx) -> Ev {
    let l = e.list();
    match l[0].atom() {
        "c" => Ev::Cancel(l[1].int() == 1),
        "pr" => Ev::Prio(l[1].int() as u32, build(0, &parse_segs(&l[2])), l[3].int()),
        "ch" => Ev::Choose(l[1].int() as u32, build(0, &parse_segs(&l[2])), match &l[3] {
            Sx::A(a) if a == "none" => ChooseAns::None,
            Sx::A(_) => ChooseAns::Err,
            Sx::L(v) => ChooseAns::Some(v[1].int() as u32),
        }),
        "d" => Ev::Deps(l[1].int() as u32, l[2].int() as u32, match &l[3] {
            Sx::A(_) => DepsAns::Err,
            Sx::L(v) if v[0].atom() == "unavail" => DepsAns::Unavail,
            Sx::L(v) => DepsAns::Avail(v[1].list().iter().map(|d| { let d = d.list(); (d[0].int() as u32, build(0, &parse_segs(&d[1]))) }).collect()),
        }),
        _ => panic!("event"),
    }
}

struct Replay { evs: Vec<Ev>, st: RefCell<(usize, Vec<Ev>)> }

impl DependencyProvider for Replay {
    type P = u32; type V = u32; type VS = R; type M = String; type Priority = i64; type Err = HErr;
    fn should_cancel(&self) -> Result<(), HErr> {
        let mut st = self.st.borrow_mut();
        let i = st.0; st.0 += 1;
        let ok = match self.evs.get(i) { Some(Ev::Cancel(ok)) => *ok, Some(_) => true, None => false };
        st.1.push(Ev::Cancel(ok));
        if ok { Ok(()) } else { Err(HErr("injected")) }
    }
    fn prioritize(&self, p: &u32, r: &R) -> i64 {
        let mut st = self.st.borrow_mut();
        let i = st.0; st.0 += 1;
        let pr = match self.evs.get(i) { Some(Ev::Prio(_, _, pr)) => *pr, _ => 0 };
        st.1.push(Ev::Prio(*p, r.clone(), pr));
        pr
    }
    fn choose_version(&self, p: &u32, r: &R) -> Result<Option<u32>, HErr> {
        let mut st = self.st.borrow_mut();
        let i = st.0; st.0 += 1;
        let a = match self.evs.get(i) { Some(Ev::Choose(_, _, a)) => a.clone(), _ => ChooseAns::None };
        st.1.push(Ev::Choose(*p, r.clone(), a.clone()));
        match a { ChooseAns::Some(v) => Ok(Some(v)), ChooseAns::None => Ok(None), ChooseAns::Err => Err(HErr("injected")) }
    }
    fn get_dependencies(&self, p: &u32, v: &u32) -> Result<Dependencies<u32, R, String>, HErr> {
        let mut st = self.st.borrow_mut();
        let i = st.0; st.0 += 1;
        let a = match self.evs.get(i) { Some(Ev::Deps(_, _, a)) => a.clone(), _ => DepsAns::Unavail };
        match a {
            DepsAns::Err => { st.1.push(Ev::Deps(*p, *v, DepsAns::Err)); Err(HErr("injected")) }
            DepsAns::Unavail => { st.1.push(Ev::Deps(*p, *v, DepsAns::Unavail)); Ok(Dependencies::Unavailable("u".into())) }
            DepsAns::Avail(ds) => {
                let mut map: pubgrub::Map<u32, R> = pubgrub::Map::default();
                for (q, s) in &ds { map.insert(*q, s.clone()); }
                let order: Vec<(u32, R)> = map.iter().map(|(q, s)| (*q, s.clone())).collect();
                st.1.push(Ev::Deps(*p, *v, DepsAns::Avail(order)));
                Ok(Dependencies::Available(map))
            }
        }
    }
}

pub fn eval(c: &Sx) -> String {
    // under the same watchdog as the generator runs
    let c2 = c.clone();
    let (tx, rx) = std::sync::mpsc::channel();
    std::thread::spawn(move || { let _ = tx.send(eval_raw(&c2)); });
    rx.recv_timeout(std::time::Duration::from_secs(HANG_SECS)).unwrap_or_else(|_| "(res (hang)) (store) (creason 1) (heap ok) (gen ok)".into())
}

fn eval_raw(c: &Sx) -> String {
    let l = c.list();
    // (solve names (reg ...) (root p v) (trace ...) ...)
    let root = l[3].list();
    let (rp, rv) = (root[1].int() as u32, root[2].int() as u32);
    let evs: Vec<Ev> = l[4].list()[1..].iter().map(parse_ev).collect();
    let prov = Replay { evs, st: RefCell::new((0, vec![])) };
    let r = std::panic::catch_unwind(std::panic::AssertUnwindSafe(|| resolve(&prov, rp, rv)));
    let result = match r {
        Err(_) => "(panic)".to_string(),
        Ok(Ok(sol)) => {
            let mut s: Vec<(u32, u32)> = sol.iter().map(|(p, v)| (*p, *v)).collect();
            s.sort();
            format!("(ok ({}))", s.iter().map(|(p, v)| format!("({} {})", p, v)).collect::<Vec<_>>().join(" "))
        }
        Ok(Err(PubGrubError::NoSolution(t))) => format!("(nosol {})", tree_sx(&t)),
        Ok(Err(PubGrubError::ErrorInShouldCancel(_))) => "(errcancel)".into(),
        Ok(Err(PubGrubError::ErrorChoosingPackageVersion(_))) => "(errchoose)".into(),
        Ok(Err(PubGrubError::ErrorRetrievingDependencies { package, version, .. })) => format!("(errdeps {} {})", package, version),
        Ok(Err(PubGrubError::Failure(m))) => format!("(failure {})", if m.contains("incompatible") { 1 } else { 0 }),
    };
    let st = prov.st.into_inner();
    let replayed: Vec<String> = st.1.iter().map(ev_sx).collect();
    let recorded: Vec<String> = prov.evs.iter().map(ev_sx).collect();
    if replayed != recorded {
        // the implementation no longer follows the recorded trace: report where it departs
        let k = replayed.iter().zip(recorded.iter()).position(|(a, b)| a != b).unwrap_or(replayed.len().min(recorded.len()));
        return format!("(res (diverged {} {})) {} (creason 1) (heap ok) (gen ok)", k, replayed.get(k).cloned().unwrap_or_else(|| "end".into()), store_sx());
    }
    format!("(res {}) {} (creason 1) (heap ok) (gen ok)", result, store_sx())
}
