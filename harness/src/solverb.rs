//! The solver over a VersionSet that implements only the five required methods (BitSet8 of terms.rs): every set
//! operation the solver performs goes through the trait's PROVIDED methods (full, union, is_disjoint, subset_of).
//! C17 ("the solver is generic over them"), and C01/C02 on a second VersionSet.
//! Case: (solveb (reg (p (v ((q mask)...)|u)...)...) (root p v) (trace ev...))   sets are u8 masks over versions 0..7
use crate::sexp::Sx;
use crate::terms::BitSet8;
use crate::{Out, Rng};
use pubgrub::{resolve, Dependencies, DependencyProvider, DerivationTree, External, PubGrubError, Term};
use std::cell::RefCell;
use std::collections::BTreeMap;

type Deps = Option<Vec<(u32, u8)>>;
type Reg = BTreeMap<u32, BTreeMap<u8, Deps>>;

struct ProvB<'a> {
    reg: &'a Reg,
    newest: bool,
    prio: u8,          // 0 = all equal (heap order decides), 1 = count, 2 = static by package number, 3 = reverse static
    trace: RefCell<Vec<String>>,
    budget: usize,
}
#[derive(Debug)]
struct E;
impl std::fmt::Display for E { fn fmt(&self, f: &mut std::fmt::Formatter<'_>) -> std::fmt::Result { write!(f, "budget") } }
impl std::error::Error for E {}

impl<'a> DependencyProvider for ProvB<'a> {
    type P = u32; type V = u8; type VS = BitSet8; type M = String; type Priority = i64; type Err = E;
    fn should_cancel(&self) -> Result<(), E> {
        let mut t = self.trace.borrow_mut();
        if t.len() >= self.budget { t.push("(c 0)".into()); return Err(E); }
        t.push("(c 1)".into());
        Ok(())
    }
    fn prioritize(&self, p: &u32, s: &BitSet8) -> i64 {
        let pr = match self.prio {
            0 => 0,
            1 => -(self.reg.get(p).map(|m| m.keys().filter(|v| (s.0 >> **v) & 1 == 1).count()).unwrap_or(0) as i64),
            2 => *p as i64,
            _ => -(*p as i64),
        };
        self.trace.borrow_mut().push(format!("(pr {} {} {})", p, s.0, pr));
        pr
    }
    fn choose_version(&self, p: &u32, s: &BitSet8) -> Result<Option<u8>, E> {
        let vs: Vec<u8> = self.reg.get(p).map(|m| m.keys().cloned().filter(|v| (s.0 >> *v) & 1 == 1).collect()).unwrap_or_default();
        let a = if self.newest { vs.last().cloned() } else { vs.first().cloned() };
        self.trace.borrow_mut().push(format!("(ch {} {} {})", p, s.0, match a { Some(v) => format!("(some {})", v), None => "none".into() }));
        Ok(a)
    }
    fn get_dependencies(&self, p: &u32, v: &u8) -> Result<Dependencies<u32, BitSet8, String>, E> {
        match self.reg.get(p).and_then(|m| m.get(v)) {
            None | Some(None) => {
                self.trace.borrow_mut().push(format!("(d {} {} (unavail 0))", p, v));
                Ok(Dependencies::Unavailable("u".to_string()))
            }
            Some(Some(ds)) => {
                let mut map: pubgrub::Map<u32, BitSet8> = pubgrub::Map::default();
                for (q, s) in ds { map.insert(*q, BitSet8(*s)); }
                // the order in which resolve sees the constraints is the iteration order of this very map
                let order: Vec<String> = map.iter().map(|(q, s)| format!("({} {})", q, s.0)).collect();
                self.trace.borrow_mut().push(format!("(d {} {} (avail ({})))", p, v, order.join(" ")));
                Ok(Dependencies::Available(map))
            }
        }
    }
}

fn term_sx(t: &Term<BitSet8>) -> String {
    match t { Term::Positive(r) => format!("(p {})", r.0), Term::Negative(r) => format!("(n {})", r.0) }
}
fn tree_sx(t: &DerivationTree<u32, BitSet8, String>) -> String {
    match t {
        DerivationTree::External(e) => match e {
            External::NotRoot(p, v) => format!("(ext notroot {} {})", p, v),
            External::NoVersions(p, s) => format!("(ext nov {} {})", p, s.0),
            External::FromDependencyOf(p, s, q, t) => format!("(ext dep {} {} {} {})", p, s.0, q, t.0),
            External::Custom(p, s, _m) => format!("(ext custom {} {})", p, s.0),
        },
        DerivationTree::Derived(d) => {
            let mut ts: Vec<(u32, String)> = d.terms.iter().map(|(p, t)| (*p, term_sx(t))).collect();
            ts.sort();
            let ts: Vec<String> = ts.iter().map(|(p, t)| format!("({} {})", p, t)).collect();
            format!("(der {} ({}) {} {})", d.shared_id.map(|i| i.to_string()).unwrap_or_else(|| "none".into()),
                    ts.join(" "), tree_sx(&d.cause1), tree_sx(&d.cause2))
        }
    }
}

fn reg_sx(reg: &Reg) -> String {
    let pk: Vec<String> = reg.iter().map(|(p, vs)| {
        let v: Vec<String> = vs.iter().map(|(v, d)| match d {
            None => format!("({} u)", v),
            Some(ds) => format!("({} ({}))", v, ds.iter().map(|(q, s)| format!("({} {})", q, s)).collect::<Vec<_>>().join(" ")),
        }).collect();
        format!("({} {})", p, v.join(" "))
    }).collect();
    format!("(reg {})", pk.join(" "))
}

fn run(out: &mut Out, reg: &Reg, root: (u32, u8), newest: bool, prio: u8) {
    let prov = ProvB { reg, newest, prio, trace: RefCell::new(vec![]), budget: 4000 };
    let r = std::panic::catch_unwind(std::panic::AssertUnwindSafe(|| resolve(&prov, root.0, root.1)));
    let mut conflict = false;
    let result = match r {
        Err(_) => "(panic)".to_string(),
        Ok(Ok(sol)) => {
            let mut s: Vec<(u32, u8)> = sol.iter().map(|(p, v)| (*p, *v)).collect();
            s.sort();
            format!("(ok ({}))", s.iter().map(|(p, v)| format!("({} {})", p, v)).collect::<Vec<_>>().join(" "))
        }
        Ok(Err(PubGrubError::NoSolution(t))) => { conflict = true; format!("(nosol {})", tree_sx(&t)) }
        Ok(Err(PubGrubError::ErrorInShouldCancel(_))) => "(errcancel)".to_string(),
        Ok(Err(PubGrubError::Failure(_))) => "(failure)".to_string(),
        Ok(Err(_)) => "(othererr)".to_string(),
    };
    let tr = prov.trace.borrow();
    if tr.iter().any(|e| e.ends_with(" none)")) { conflict = true; }
    let case = format!("(solveb {} (root {} {}) (trace {}) (strat {} {}))", reg_sx(reg), root.0, root.1, tr.join(" "), newest as u8, prio);
    writeln!(out.w, "{}\t(res {}) (heap ok) (gen ok)\t{}", case, result, conflict as u8).unwrap();
    out.n += 1;
}
use std::io::Write;

pub fn eval(c: &Sx) -> String {
    // replay: rebuild the registry from the case and run the same strategy family (newest, equal priorities)
    let l = c.list();
    let mut reg: Reg = BTreeMap::new();
    for pk in &l[1].list()[1..] {
        let pl = pk.list();
        let p = pl[0].int() as u32;
        let e = reg.entry(p).or_default();
        for ve in &pl[1..] {
            let vl = ve.list();
            let v = vl[0].int() as u8;
            let d: Deps = match &vl[1] { Sx::A(_) => None, Sx::L(ds) => Some(ds.iter().map(|d| { let d = d.list(); (d[0].int() as u32, d[1].int() as u8) }).collect()) };
            e.insert(v, d);
        }
    }
    let root = l[2].list();
    // the strategy is not part of the case text: try the four priority modes x two choice modes and return the
    // observation of the run whose trace equals the recorded one
    let want: Vec<String> = l[3].list()[1..].iter().map(|e| crate::sexp::show(e)).collect();
    for newest in [true, false] { for prio in 0..4u8 {
        let prov = ProvB { reg: &reg, newest, prio, trace: RefCell::new(vec![]), budget: 4000 };
        let r = std::panic::catch_unwind(std::panic::AssertUnwindSafe(|| resolve(&prov, root[1].int() as u32, root[2].int() as u8)));
        if *prov.trace.borrow() != want { continue; }
        let result = match r {
            Err(_) => "(panic)".to_string(),
            Ok(Ok(sol)) => { let mut s: Vec<(u32, u8)> = sol.iter().map(|(p, v)| (*p, *v)).collect(); s.sort();
                format!("(ok ({}))", s.iter().map(|(p, v)| format!("({} {})", p, v)).collect::<Vec<_>>().join(" ")) }
            Ok(Err(PubGrubError::NoSolution(t))) => format!("(nosol {})", tree_sx(&t)),
            Ok(Err(PubGrubError::ErrorInShouldCancel(_))) => "(errcancel)".to_string(),
            Ok(Err(PubGrubError::Failure(_))) => "(failure)".to_string(),
            Ok(Err(_)) => "(othererr)".to_string(),
        };
        return format!("(res {}) (heap ok) (gen ok)", result);
    } }
    "(res (diverged)) (heap ok) (gen ok)".to_string()
}

pub fn generate(out: &mut Out, rng: &mut Rng, thorough: bool) {
    let n = if thorough { 600000 } else { 150000 };
    for i in 0..n {
        let npk = 3 + rng.below(if i % 3 == 0 { 3 } else { 5 }) as u32;       // 3..7 packages
        let nver = 1 + rng.below(5) as u8;                                     // versions among 0..nver (+ sparse)
        let mut reg: Reg = BTreeMap::new();
        for p in 0..npk {
            let mut vs = BTreeMap::new();
            for v in 0..=nver {
                if p != 0 && rng.chance(1, 6) { continue; }
                if rng.chance(1, 12) { vs.insert(v, None); continue; }
                let nd = rng.below(4) + (p == 0) as u64;
                let mut ds: Vec<(u32, u8)> = vec![];
                for _ in 0..nd {
                    let unk = rng.chance(1, 10) as u64; let q = rng.below(npk as u64 + unk) as u32;   // sometimes an unknown package
                    if ds.iter().any(|(x, _)| *x == q) { continue; }
                    let mask: u8 = match rng.below(10) {
                        0 => 0xFF, 1 => 1u8 << (rng.next() % (nver as u64 + 1)), 2 => 0,
                        3 => !(1u8 << (rng.next() % (nver as u64 + 1))),
                        4 | 5 => (rng.next() & 0xFF) as u8,
                        // mostly satisfiable: a random mask that keeps at least one low version
                        _ => ((rng.next() & 0xFF) as u8) | (1u8 << (rng.next() % (nver as u64 + 1))),
                    };
                    ds.push((q, mask));
                }
                vs.insert(v, Some(ds));
            }
            reg.insert(p, vs);
        }
        let rootv = match reg.get(&0).and_then(|m| m.keys().next_back().cloned()) { Some(v) => v, None => continue };
        let newest = rng.chance(1, 2);
        let prio = rng.below(4) as u8;
        run(out, &reg, (0, rootv), newest, prio);
    }
}
