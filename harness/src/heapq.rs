//! The binary heap of the priority-queue crate (as pubgrub instantiates it:
//! PriorityQueue<P, Priority, BuildHasherDefault<FxHasher>>; push, pop, clear) against Model/Heap.v.
//! Case: (heap (push p z) | pop | clear ...)   Observation: (pops (p z) | none ...) (left n)
use crate::sexp::Sx;
use crate::{Out, Rng};
use priority_queue::PriorityQueue;
use rustc_hash::FxHasher;
use std::hash::BuildHasherDefault;

pub fn eval(c: &Sx) -> String {
    let l = c.list();
    let mut q: PriorityQueue<u32, i64, BuildHasherDefault<FxHasher>> = PriorityQueue::default();
    let mut pops: Vec<String> = vec![];
    for op in &l[1..] {
        match op {
            Sx::A(a) if a == "pop" => pops.push(match q.pop() { Some((p, z)) => format!("({} {})", p, z), None => "none".into() }),
            Sx::A(a) if a == "clear" => q.clear(),
            _ => {
                let o = op.list();
                q.push(o[1].int() as u32, o[2].int());
            }
        }
    }
    // drain: the whole remaining order is part of the observation
    let left = q.len();
    while let Some((p, z)) = q.pop() { pops.push(format!("({} {})", p, z)); }
    format!("(pops {}) (left {})", pops.join(" "), left)
}

fn run(out: &mut Out, ops: &[String]) {
    let case = format!("(heap {})", ops.join(" "));
    let sx = crate::sexp::parse(&case).unwrap();
    // a panic of the evaluated code (or a failed harness expectation) is an observation: the driver reports it with this case
    let obs = std::panic::catch_unwind(std::panic::AssertUnwindSafe(|| eval(&sx))).unwrap_or_else(|_| "(harness-panic 1)".to_string());
    out.emit(&case, &obs);
}

pub fn generate(out: &mut Out, rng: &mut Rng, thorough: bool) {
    // exhaustive: all sequences of <= 5 operations over 3 items x 2 priorities + pop + clear (8 symbols)
    let mut syms: Vec<String> = vec!["pop".into(), "clear".into()];
    for p in 0..3 { for z in 0..2 { syms.push(format!("(push {} {})", p, z)); } }
    let depth = if thorough { 6 } else { 5 };
    run(out, &[]);
    for len in 1..=depth {
        let total = syms.len().pow(len as u32);
        for code in 0..total {
            let mut c = code;
            let mut ops = Vec::with_capacity(len);
            for _ in 0..len { ops.push(syms[c % syms.len()].clone()); c /= syms.len(); }
            run(out, &ops);
        }
    }
    // seeded: many items, few distinct priorities (ties everywhere), updates of queued items, pops in between
    let n = if thorough { 400000 } else { 30000 };
    for _ in 0..n {
        let wide = rng.chance(1, 4); let items = 2 + rng.below(if wide { 40 } else { 12 });
        let manyp = rng.chance(1, 3); let prios = 1 + rng.below(if manyp { 50 } else { 4 }) as i64;
        let long = rng.chance(1, 5); let len = 1 + rng.below(if long { 120 } else { 30 });
        let pop_w = 1 + rng.below(4);
        let mut ops = vec![];
        for _ in 0..len {
            let r = rng.below(10);
            if r < pop_w { ops.push("pop".to_string()); }
            else if r == 9 && rng.chance(1, 6) { ops.push("clear".to_string()); }
            else { ops.push(format!("(push {} {})", rng.below(items), rng.below(prios as u64) as i64 - prios / 2)); }
        }
        run(out, &ops);
    }
}
