//! Minimal s-expressions: atoms are runs of non-space, non-paren characters.
#[derive(Debug, Clone, PartialEq)]
pub enum Sx {
    A(String),
    L(Vec<Sx>),
}
impl Sx {
    pub fn atom(&self) -> &str {
        match self { Sx::A(s) => s, _ => panic!("atom expected: {:?}", self) }
    }
    pub fn list(&self) -> &[Sx] {
        match self { Sx::L(v) => v, _ => panic!("list expected: {:?}", self) }
    }
    pub fn int(&self) -> i64 { self.atom().parse().expect("int") }
    pub fn head(&self) -> &str { self.list()[0].atom() }
}
pub fn parse(s: &str) -> Option<Sx> {
    let toks = tokenize(s);
    let mut pos = 0;
    let r = parse_at(&toks, &mut pos)?;
    if pos == toks.len() { Some(r) } else { None }
}
fn tokenize(s: &str) -> Vec<String> {
    let mut v = vec![];
    let mut cur = String::new();
    for c in s.chars() {
        if c == '(' || c == ')' || c.is_whitespace() {
            if !cur.is_empty() { v.push(std::mem::take(&mut cur)); }
            if c == '(' || c == ')' { v.push(c.to_string()); }
        } else { cur.push(c); }
    }
    if !cur.is_empty() { v.push(cur); }
    v
}
fn parse_at(t: &[String], pos: &mut usize) -> Option<Sx> {
    let tok = t.get(*pos)?;
    *pos += 1;
    if tok == "(" {
        let mut v = vec![];
        loop {
            if t.get(*pos)? == ")" { *pos += 1; return Some(Sx::L(v)); }
            v.push(parse_at(t, pos)?);
        }
    } else if tok == ")" { None } else { Some(Sx::A(tok.clone())) }
}
pub fn bytes(b: &[u8]) -> String {
    let mut s = String::from("(");
    for (i, x) in b.iter().enumerate() {
        if i > 0 { s.push(' '); }
        s.push_str(&x.to_string());
    }
    s.push(')');
    s
}
pub fn get_bytes(s: &Sx) -> Vec<u8> { s.list().iter().map(|x| x.int() as u8).collect() }
pub fn show(s: &Sx) -> String {
    match s {
        Sx::A(a) => a.clone(),
        Sx::L(l) => format!("({})", l.iter().map(show).collect::<Vec<_>>().join(" ")),
    }
}
