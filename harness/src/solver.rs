//! Solver correspondence (C01..C07, C12..C14): runs pubgrub::resolve with a recording, scripted,
//! optionally fault-injecting provider and prints `(solve …registry, root, trace…) <TAB> result`.
use crate::ranges::{range_sx, Seg, R};
use crate::sexp::Sx;
use crate::{Out, Rng};
use pubgrub::{
    resolve, Dependencies, DependencyProvider, DerivationTree, External, Package, PubGrubError, Term,
};
use std::cell::RefCell;
use std::sync::{Arc, Mutex};
use std::collections::BTreeMap;
use std::fmt;
use std::ops::Bound::{Excluded, Included, Unbounded};

pub type Deps = Option<Vec<(u32, R)>>; // None = dependencies unavailable
#[derive(Clone, Debug, Default)]
pub struct Registry {
    pub pkgs: BTreeMap<u32, BTreeMap<u32, Deps>>,
}

/// package names: integers, or strings (a different hashing path)
pub trait Name: Package + Ord {
    fn of(id: u32) -> Self;
    fn id(&self) -> u32;
}
impl Name for u32 {
    fn of(id: u32) -> Self { id }
    fn id(&self) -> u32 { *self }
}
impl Name for String {
    fn of(id: u32) -> Self { format!("pkg-{}", id) }
    fn id(&self) -> u32 { self[4..].parse().unwrap() }
}

#[derive(Clone, Debug, PartialEq)]
pub enum ChooseAns { Some(u32), None, Err }
#[derive(Clone, Debug, PartialEq)]
pub enum DepsAns { Avail(Vec<(u32, R)>), Unavail, Err }
#[derive(Clone, Debug, PartialEq)]
pub enum Ev {
    Cancel(bool),
    Prio(u32, R, i64),
    Choose(u32, R, ChooseAns),
    Deps(u32, u32, DepsAns),
}

#[derive(Clone, Debug)]
pub enum ChooseMode { Newest, Oldest, Script }
#[derive(Clone, Debug)]
pub enum PrioMode { Static(Vec<i64>), Count, Script, Hash(u64), CountThen(bool), Table(Vec<(u32, Option<R>, i64)>, i64) }

#[derive(Clone, Debug, PartialEq)]
pub enum Fault { None, ErrAt(usize), OutOfSetAt(usize) }

#[derive(Debug)]
pub struct HErr(pub &'static str);
impl fmt::Display for HErr {
    fn fmt(&self, f: &mut fmt::Formatter<'_>) -> fmt::Result { write!(f, "{}", self.0) }
}
impl std::error::Error for HErr {}

pub struct Shared {
    pub trace: Vec<Ev>,
    pub script: Vec<u32>,
    pub pos: usize,
    pub branching: Vec<u32>,
    pub hash: u64,
}

pub struct Prov<'a, N: Name> {
    pub reg: &'a Registry,
    pub choose: ChooseMode,
    pub prio: PrioMode,
    pub fault: Fault,
    pub budget: usize,
    pub sh: Arc<Mutex<Shared>>,
    pub _n: std::marker::PhantomData<N>,
}

impl<'a, N: Name> Prov<'a, N> {
    pub fn new(reg: &'a Registry, choose: ChooseMode, prio: PrioMode, script: Vec<u32>, fault: Fault) -> Self {
        let h = match &prio { PrioMode::Hash(s) => *s, _ => 0 };
        Prov { reg, choose, prio, fault, budget: 20000,
               sh: Arc::new(Mutex::new(Shared { trace: vec![], script, pos: 0, branching: vec![], hash: h })),
               _n: std::marker::PhantomData }
    }
    fn pick(&self, sh: &mut Shared, n: u32) -> u32 {
        // one scripted choice among n alternatives
        let c = if sh.pos < sh.script.len() { sh.script[sh.pos] } else { 0 };
        sh.pos += 1;
        sh.branching.push(n);
        if n == 0 { 0 } else { c % n }
    }
}

impl<'a, N: Name> DependencyProvider for Prov<'a, N> {
    type P = N;
    type V = u32;
    type VS = R;
    type M = String;
    type Priority = i64;
    type Err = HErr;

    fn should_cancel(&self) -> Result<(), HErr> {
        let mut sh = self.sh.lock().unwrap_or_else(|e| e.into_inner());
        let k = sh.trace.len();
        if k >= self.budget { sh.trace.push(Ev::Cancel(false)); return Err(HErr("budget")); }
        if self.fault == Fault::ErrAt(k) { sh.trace.push(Ev::Cancel(false)); return Err(HErr("injected")); }
        sh.trace.push(Ev::Cancel(true));
        Ok(())
    }

    fn prioritize(&self, p: &N, r: &R) -> i64 {
        let mut sh = self.sh.lock().unwrap_or_else(|e| e.into_inner());
        let pid = p.id();
        let pr = match &self.prio {
            PrioMode::Static(v) => v.get(pid as usize).copied().unwrap_or(0),
            PrioMode::Count => {
                let n = self.reg.pkgs.get(&pid).map(|m| m.keys().filter(|v| r.contains(v)).count()).unwrap_or(0);
                -(n as i64)
            }
            PrioMode::CountThen(most_first) => {
                // number of candidate versions (most or fewest first), ties broken by the larger package number
                let n = self.reg.pkgs.get(&pid).map(|m| m.keys().filter(|v| r.contains(v)).count()).unwrap_or(0) as i64;
                (if *most_first { n } else { -n }) * 64 + pid as i64
            }
            PrioMode::Table(rows, default) => {
                // range-dependent priorities: the first row whose package (u32::MAX = any package >= 100) and set match;
                // ties broken by the smaller package number
                let rank = rows.iter().find(|(q, set, _)| (*q == pid || (*q == u32::MAX && pid >= 100)) && set.as_ref().map_or(true, |s| s == r))
                    .map(|(_, _, z)| *z).unwrap_or(*default);
                rank * 1000 - pid as i64
            }
            PrioMode::Script => self.pick(&mut sh, 2) as i64,
            PrioMode::Hash(_) => {
                // history-dependent pseudo-random priority
                sh.hash = sh.hash.wrapping_mul(6364136223846793005).wrapping_add(1442695040888963407 + pid as u64);
                ((sh.hash >> 33) % 3) as i64
            }
        };
        sh.trace.push(Ev::Prio(pid, r.clone(), pr));
        pr
    }

    fn choose_version(&self, p: &N, r: &R) -> Result<Option<u32>, HErr> {
        let mut sh = self.sh.lock().unwrap_or_else(|e| e.into_inner());
        let k = sh.trace.len();
        let pid = p.id();
        if self.fault == Fault::ErrAt(k) { sh.trace.push(Ev::Choose(pid, r.clone(), ChooseAns::Err)); return Err(HErr("injected")); }
        let all: Vec<u32> = self.reg.pkgs.get(&pid).map(|m| m.keys().copied().collect()).unwrap_or_default();
        if self.fault == Fault::OutOfSetAt(k) {
            let mut cands = all.clone();
            cands.extend([0, 1, 2, 3, 99]);
            if let Some(v) = cands.into_iter().find(|v| !r.contains(v)) {
                sh.trace.push(Ev::Choose(pid, r.clone(), ChooseAns::Some(v)));
                return Ok(Some(v));
            }
        }
        let adm: Vec<u32> = all.into_iter().filter(|v| r.contains(v)).collect();
        let ans = if adm.is_empty() { None } else {
            Some(match self.choose {
                ChooseMode::Newest => *adm.last().unwrap(),
                ChooseMode::Oldest => adm[0],
                ChooseMode::Script => adm[self.pick(&mut sh, adm.len() as u32) as usize],
            })
        };
        sh.trace.push(Ev::Choose(pid, r.clone(), match ans { Some(v) => ChooseAns::Some(v), None => ChooseAns::None }));
        Ok(ans)
    }

    fn get_dependencies(&self, p: &N, v: &u32) -> Result<Dependencies<N, R, String>, HErr> {
        let mut sh = self.sh.lock().unwrap_or_else(|e| e.into_inner());
        let k = sh.trace.len();
        let pid = p.id();
        if self.fault == Fault::ErrAt(k) { sh.trace.push(Ev::Deps(pid, *v, DepsAns::Err)); return Err(HErr("injected")); }
        match self.reg.pkgs.get(&pid).and_then(|m| m.get(v)) {
            None | Some(None) => {
                sh.trace.push(Ev::Deps(pid, *v, DepsAns::Unavail));
                Ok(Dependencies::Unavailable(unavail_reason(pid, *v)))
            }
            Some(Some(ds)) => {
                let mut map: pubgrub::Map<N, R> = pubgrub::Map::default();
                for (q, s) in ds { map.insert(N::of(*q), s.clone()); }
                // the order in which resolve will see the constraints is the iteration order of this very map
                let order: Vec<(u32, R)> = map.iter().map(|(q, s)| (q.id(), s.clone())).collect();
                sh.trace.push(Ev::Deps(pid, *v, DepsAns::Avail(order)));
                Ok(Dependencies::Available(map))
            }
        }
    }
}

// ------------------------------------------------------------------------------------------ printing

fn term_sx(t: &Term<R>) -> String {
    match t { Term::Positive(r) => format!("(p {})", range_sx(r)), Term::Negative(r) => format!("(n {})", range_sx(r)) }
}

pub fn tree_sx<N: Name>(t: &DerivationTree<N, R, String>) -> String {
    match t {
        DerivationTree::External(e) => match e {
            External::NotRoot(p, v) => format!("(ext notroot {} {})", p.id(), v),
            External::NoVersions(p, s) => format!("(ext nov {} {})", p.id(), range_sx(s)),
            External::FromDependencyOf(p, s, q, t) => format!("(ext dep {} {} {} {})", p.id(), range_sx(s), q.id(), range_sx(t)),
            External::Custom(p, s, _m) => format!("(ext custom {} {})", p.id(), range_sx(s)),
        },
        DerivationTree::Derived(d) => {
            let mut ts: Vec<(u32, String)> = d.terms.iter().map(|(p, t)| (p.id(), term_sx(t))).collect();
            ts.sort();
            let ts: Vec<String> = ts.iter().map(|(p, t)| format!("({} {})", p, t)).collect();
            format!("(der {} ({}) {} {})",
                    d.shared_id.map(|i| i.to_string()).unwrap_or_else(|| "none".into()),
                    ts.join(" "), tree_sx(&d.cause1), tree_sx(&d.cause2))
        }
    }
}

/// the reason given for an unavailable (package, version): distinct per version, so that a Custom leaf of a derivation
/// tree can be checked against what the provider said for every version in its set
pub fn unavail_reason(p: u32, v: u32) -> String { format!("unavailable-{}-{}", p, v) }

/// 1 iff every Custom leaf carries, for every registry version of its package inside its set, exactly the reason the
/// provider gave for that version (oracle on the implementation's own tree: the metadata is not part of the model's tree text)
pub fn custom_reasons_ok<N: Name>(t: &DerivationTree<N, R, String>, reg: &Registry) -> bool {
    match t {
        DerivationTree::External(External::Custom(p, s, m)) => {
            let pid = p.id();
            reg.pkgs.get(&pid).map(|vs| vs.keys().filter(|v| s.contains(v)).all(|v| *m == unavail_reason(pid, *v))).unwrap_or(true)
        }
        DerivationTree::External(_) => true,
        DerivationTree::Derived(d) => custom_reasons_ok(&d.cause1, reg) && custom_reasons_ok(&d.cause2, reg),
    }
}

pub fn ev_sx(e: &Ev) -> String {
    match e {
        Ev::Cancel(ok) => format!("(c {})", *ok as u8),
        Ev::Prio(p, s, pr) => format!("(pr {} {} {})", p, range_sx(s), pr),
        Ev::Choose(p, s, a) => format!("(ch {} {} {})", p, range_sx(s), match a {
            ChooseAns::Some(v) => format!("(some {})", v), ChooseAns::None => "none".into(), ChooseAns::Err => "err".into() }),
        Ev::Deps(p, v, a) => format!("(d {} {} {})", p, v, match a {
            DepsAns::Avail(ds) => format!("(avail ({}))", ds.iter().map(|(q, s)| format!("({} {})", q, range_sx(s))).collect::<Vec<_>>().join(" ")),
            DepsAns::Unavail => "(unavail 0)".into(), DepsAns::Err => "err".into() }),
    }
}

pub fn reg_sx(reg: &Registry) -> String {
    let pk: Vec<String> = reg.pkgs.iter().map(|(p, vs)| {
        let vv: Vec<String> = vs.iter().map(|(v, d)| match d {
            None => format!("({} u)", v),
            Some(ds) => format!("({} ({}))", v, ds.iter().map(|(q, s)| format!("({} {})", q, range_sx(s))).collect::<Vec<_>>().join(" ")),
        }).collect();
        format!("({} {})", p, vv.join(" "))
    }).collect();
    format!("(reg {})", pk.join(" "))
}

pub struct RunOut { pub trace: Vec<Ev>, pub result: String, pub branching: Vec<u32>, pub report: String, pub store: String }

/// Where a run publishes its provider state, so that the events recorded so far survive a run that hangs.
pub type Slot = Arc<Mutex<Option<Arc<Mutex<Shared>>>>>;

fn run_once_raw<N: Name>(reg: &Registry, root: (u32, u32), choose: &ChooseMode, prio: &PrioMode, script: &[u32], fault: &Fault, slot: &Slot) -> RunOut {
    let prov: Prov<N> = Prov::new(reg, choose.clone(), prio.clone(), script.to_vec(), fault.clone());
    *slot.lock().unwrap_or_else(|e| e.into_inner()) = Some(prov.sh.clone());
    let r = std::panic::catch_unwind(std::panic::AssertUnwindSafe(|| resolve(&prov, N::of(root.0), root.1)));
    let mut report = String::new();
    let mut creason = true;
    let result = match r {
        Err(_) => "(panic)".to_string(),
        Ok(Ok(sol)) => {
            let mut s: Vec<(u32, u32)> = sol.iter().map(|(p, v)| (p.id(), *v)).collect();
            s.sort();
            format!("(ok ({}))", s.iter().map(|(p, v)| format!("({} {})", p, v)).collect::<Vec<_>>().join(" "))
        }
        Ok(Err(PubGrubError::NoSolution(t))) => {
            // the default text report and the Debug rendering (both depend on map iteration order)
            use pubgrub::Reporter;
            report = format!("{}\n{:?}", pubgrub::DefaultStringReporter::report(&t), t);
            creason = custom_reasons_ok(&t, reg);
            format!("(nosol {})", tree_sx(&t))
        }
        Ok(Err(PubGrubError::ErrorInShouldCancel(e))) => if e.0 == "budget" { "(budget)".into() } else { "(errcancel)".into() },
        Ok(Err(PubGrubError::ErrorChoosingPackageVersion(_))) => "(errchoose)".into(),
        Ok(Err(PubGrubError::ErrorRetrievingDependencies { package, version, .. })) => format!("(errdeps {} {})", package.id(), version),
        Ok(Err(PubGrubError::Failure(m))) => format!("(failure {})", if m.contains("incompatible") { 1 } else { 0 }),
    };
    let mut sh = prov.sh.lock().unwrap_or_else(|e| e.into_inner());
    RunOut { trace: std::mem::take(&mut sh.trace), result, branching: std::mem::take(&mut sh.branching), report, store: format!("{} (creason {})", store_sx(), creason as u8) }
}

// Every run happens on a long-lived worker thread under a watchdog: a run that does not return within
// HANG_SECS (the provider's call budget bounds every loop that keeps calling the provider, so this is a
// loop inside the solver) is abandoned - its thread keeps spinning until the process exits - and reported
// as the result "(hang)" together with the provider events recorded so far.  After MAX_HANGS abandoned
// runs the remaining runs are not started and not emitted (result "(skipped)").
pub const HANG_SECS: u64 = 20;
const MAX_HANGS: usize = 6;
static HANGS: std::sync::atomic::AtomicUsize = std::sync::atomic::AtomicUsize::new(0);
type Task = Box<dyn FnOnce(&Slot) -> RunOut + Send>;
struct Worker { tx: std::sync::mpsc::Sender<Task>, rx: std::sync::mpsc::Receiver<RunOut>, slot: Slot }
fn spawn_worker() -> Worker {
    let (tx, rx_t) = std::sync::mpsc::channel::<Task>();
    let (tx_o, rx) = std::sync::mpsc::channel();
    let slot: Slot = Slot::default();
    let s2 = slot.clone();
    std::thread::spawn(move || {
        std::panic::set_hook(Box::new(|_| {}));
        for t in rx_t { let o = t(&s2); if tx_o.send(o).is_err() { break; } }
    });
    Worker { tx, rx, slot }
}
thread_local! { static WORKERS: RefCell<Vec<Worker>> = RefCell::new(vec![spawn_worker(), spawn_worker()]); }

fn hang_out(trace: Vec<Ev>) -> RunOut {
    RunOut { trace, result: "(hang)".into(), branching: vec![], report: String::new(), store: "(store) (creason 1)".into() }
}

fn unfinished(o: &RunOut) -> bool { o.result == "(hang)" || o.result == "(skipped)" }

/// run the task on worker thread `which` (0 or 1) under the watchdog
fn guarded(which: usize, task: Task) -> RunOut {
    use std::sync::atomic::Ordering::SeqCst;
    if HANGS.load(SeqCst) >= MAX_HANGS { let mut o = hang_out(vec![]); o.result = "(skipped)".into(); return o; }
    WORKERS.with(|ws| {
        let mut ws = ws.borrow_mut();
        *ws[which].slot.lock().unwrap_or_else(|e| e.into_inner()) = None;
        ws[which].tx.send(task).unwrap();
        match ws[which].rx.recv_timeout(std::time::Duration::from_secs(HANG_SECS)) {
            Ok(o) => o,
            Err(_) => {
                HANGS.fetch_add(1, SeqCst);
                let sh = ws[which].slot.lock().unwrap_or_else(|e| e.into_inner()).take();
                let trace = sh.map(|sh| sh.lock().unwrap_or_else(|e| e.into_inner()).trace.clone()).unwrap_or_default();
                ws[which] = spawn_worker();
                hang_out(trace)
            }
        }
    })
}

pub fn run_once_on<N: Name + 'static>(which: usize, reg: &Registry, root: (u32, u32), choose: &ChooseMode, prio: &PrioMode, script: &[u32], fault: &Fault) -> RunOut {
    let (reg, choose, prio, script, fault) = (reg.clone(), choose.clone(), prio.clone(), script.to_vec(), fault.clone());
    guarded(which, Box::new(move |slot| run_once_raw::<N>(&reg, root, &choose, &prio, &script, &fault, slot)))
}
pub fn run_once<N: Name + 'static>(reg: &Registry, root: (u32, u32), choose: &ChooseMode, prio: &PrioMode, script: &[u32], fault: &Fault) -> RunOut {
    run_once_on::<N>(0, reg, root, choose, prio, script, fault)
}

/// the incompatibility store of the resolution that just finished on this thread (cfg hook)
pub fn store_sx() -> String {
    let entries = pubgrub::verif_store::take();
    let es: Vec<String> = entries.iter().map(|e| {
        let mut ts: Vec<(u32, String)> = e.terms.iter().map(|(p, pos, set)| {
            let pid: u32 = p.strip_prefix("pkg-").unwrap_or(p).parse().expect("package name");
            (pid, format!("({} {})", if *pos { "p" } else { "n" }, crate::ranges::segs_sx(&crate::ranges::parse_display(set))))
        }).collect();
        ts.sort();
        let ts: Vec<String> = ts.iter().map(|(p, t)| format!("({} {})", p, t)).collect();
        format!("({} {} ({}))", e.kind, match e.causes { Some((a, b)) => format!("({} {})", a, b), None => "none".into() }, ts.join(" "))
    }).collect();
    format!("(store {})", es.join(" "))
}

fn nontrivial(o: &RunOut) -> bool {
    // a conflict happened: NoSolution, a None answer, or some package was asked for a version twice
    if o.result.starts_with("(nosol") { return true; }
    let mut seen = std::collections::BTreeSet::new();
    for e in &o.trace {
        if let Ev::Choose(p, _, a) = e { if *a == ChooseAns::None || !seen.insert(*p) { return true; } }
    }
    false
}

pub fn emit_run(out: &mut Out, tag: &str, names: &str, reg: &Registry, root: (u32, u32), o: &RunOut, extra: &str) {
    if o.result == "(skipped)" { return; }
    let tr: Vec<String> = o.trace.iter().map(ev_sx).collect();
    let case = format!("({} {} {} (root {} {}) (trace {}){})", tag, names, reg_sx(reg), root.0, root.1, tr.join(" "), extra);
    out.n += 1;
    use std::io::Write;
    let mut h: u64 = 0xcbf29ce484222325;
    for b in o.report.bytes() { h = (h ^ b as u64).wrapping_mul(0x100000001b3); }
    writeln!(out.w, "{}\t(res {}) {} (heap ok) (gen ok)\t{}\t{:016x}", case, o.result, o.store, nontrivial(o) as u8, h).unwrap();
}

/// run with both name types, check in-process repeatability, emit
/// the strategy, when it is a pure function of (package, set): the driver then runs the GENERATING model against it
fn strat_sx(choose: &ChooseMode, prio: &PrioMode) -> String {
    let c = match choose { ChooseMode::Newest => "newest", ChooseMode::Oldest => "oldest", ChooseMode::Script => return String::new() };
    let p = match prio {
        PrioMode::Static(v) => format!("(static {})", v.iter().map(|x| x.to_string()).collect::<Vec<_>>().join(" ")),
        PrioMode::Count => "(count)".to_string(),
        PrioMode::CountThen(b) => format!("(countthen {})", *b as u8),
        _ => return String::new(),
    };
    format!(" (strat {} {})", c, p)
}

pub fn run_and_emit(out: &mut Out, reg: &Registry, root: (u32, u32), choose: &ChooseMode, prio: &PrioMode, script: &[u32], strings: bool) -> RunOut {
    let strat = strat_sx(choose, prio);
    let a = run_once::<u32>(reg, root, choose, prio, script, &Fault::None);
    // the repetition runs on a second thread (thread-local state must not matter either)
    let b = run_once_on::<u32>(1, reg, root, choose, prio, script, &Fault::None);
    let det = unfinished(&a) || unfinished(&b) || (a.trace == b.trace && a.result == b.result && a.report == b.report && a.store == b.store);
    emit_run(out, "solve", "int", reg, root, &a, &format!(" (det {}){}", det as u8, strat));
    if strings {
        let c = run_once::<String>(reg, root, choose, prio, script, &Fault::None);
        let d = run_once_on::<String>(1, reg, root, choose, prio, script, &Fault::None);
        let det = unfinished(&c) || unfinished(&d) || (c.trace == d.trace && c.result == d.result && c.report == d.report && c.store == d.store);
        emit_run(out, "solve", "str", reg, root, &c, &format!(" (det {}){}", det as u8, strat));
    }
    a
}

/// all scripts of the (choose = any admissible version, prioritize in {0,1}) family, by stateless DFS
pub fn enumerate_scripts(out: &mut Out, reg: &Registry, root: (u32, u32), cap: usize, prio_script: bool) -> usize {
    let choose = ChooseMode::Script;
    let prio = if prio_script { PrioMode::Script } else { PrioMode::Count };
    let mut script: Vec<u32> = vec![];
    let mut n = 0;
    loop {
        let o = run_and_emit(out, reg, root, &choose, &prio, &script, false);
        n += 1;
        if n >= cap { break; }
        // next script in DFS order: increment the last position that still has an alternative
        let mut cur: Vec<u32> = (0..o.branching.len()).map(|i| script.get(i).copied().unwrap_or(0)).collect();
        let mut i = cur.len();
        loop {
            if i == 0 { return n; }
            i -= 1;
            if o.branching[i] > 0 && cur[i] + 1 < o.branching[i] { cur[i] += 1; cur.truncate(i + 1); break; }
        }
        script = cur;
    }
    n
}

// ------------------------------------------------------------------------------------------ generators

fn set_pool() -> Vec<Vec<Seg>> {
    vec![
        vec![],
        vec![(Unbounded, Unbounded)],
        vec![(Included(1), Included(1))],
        vec![(Included(2), Included(2))],
        vec![(Included(3), Included(3))],
        vec![(Included(2), Unbounded)],
        vec![(Unbounded, Excluded(3))],
        vec![(Unbounded, Excluded(2)), (Excluded(2), Unbounded)],
        vec![(Included(1), Included(1)), (Included(3), Included(3))],
        vec![(Excluded(1), Excluded(3))],
    ]
}
fn mk(s: &[Seg]) -> R { crate::ranges::build(0, s) }

/// tiny scope T2: packages {0,1}, versions {1,2}; each slot one of 15 options (DESIGN.md 3.2)
pub fn tiny_registry(code: u64) -> Registry {
    let pool = [vec![], vec![(Unbounded, Unbounded)], vec![(Included(1u32), Included(1u32))], vec![(Included(2u32), Included(2u32))]];
    let mut reg = Registry::default();
    let mut c = code;
    for p in 0..2u32 { for v in 1..=2u32 {
        let o = c % 15; c /= 15;
        match o {
            0 => {}
            1 => { reg.pkgs.entry(p).or_default().insert(v, None); }
            2 => { reg.pkgs.entry(p).or_default().insert(v, Some(vec![])); }
            _ => {
                let k = o - 3; // 0..12: target 0..3 x set 0..4
                let target = (k / 4) as u32; let set = &pool[(k % 4) as usize];
                reg.pkgs.entry(p).or_default().insert(v, Some(vec![(target, mk(set))]));
            }
        }
    } }
    reg
}

pub fn small_registry(rng: &mut Rng) -> Registry {
    let pool = set_pool();
    let mut reg = Registry::default();
    let np = 2 + rng.below(2) as u32;
    for p in 0..np {
        for v in 1..=3u32 {
            if rng.chance(1, 4) { continue; }
            if rng.chance(1, 10) { reg.pkgs.entry(p).or_default().insert(v, None); continue; }
            let nd = rng.below(3);
            let mut ds: Vec<(u32, R)> = vec![];
            for _ in 0..nd {
                let q = rng.below(np as u64 + 1) as u32; // np = unknown package
                if ds.iter().any(|(x, _)| *x == q) { continue; }
                ds.push((q, mk(&pool[rng.below(pool.len() as u64) as usize])));
            }
            reg.pkgs.entry(p).or_default().insert(v, Some(ds));
        }
    }
    reg
}

pub fn random_registry(rng: &mut Rng) -> Registry {
    let mut reg = Registry::default();
    let np = 3 + rng.below(6) as u32;
    let nv = 1 + rng.below(5) as u32;
    let rand_set = |rng: &mut Rng| -> R {
        // union of up to 3 random intervals over versions 1..=nv+1, sometimes complemented
        let mut r = R::empty();
        for _ in 0..(1 + rng.below(3)) {
            let a = 1 + rng.below(nv as u64 + 1) as u32;
            let b = a + rng.below(3) as u32;
            let s = match rng.below(3) { 0 => Included(a), 1 => Excluded(a.saturating_sub(1)), _ => Unbounded };
            let e = match rng.below(3) { 0 => Included(b), 1 => Excluded(b + 1), _ => Unbounded };
            r = r.union(&R::from_range_bounds((s, e)));
        }
        if rng.chance(1, 6) { r = r.complement(); }
        if rng.chance(1, 20) { r = R::empty(); }
        r
    };
    for p in 0..np {
        for v in 1..=nv {
            if rng.chance(1, 5) { continue; }
            if rng.chance(1, 15) { reg.pkgs.entry(p).or_default().insert(v, None); continue; }
            let nd = rng.below(4);
            let mut ds: Vec<(u32, R)> = vec![];
            for _ in 0..nd {
                // mostly "forward" dependencies, sometimes backward (cycles), self, or unknown
                let q = match rng.below(10) { 0 => p, 1 => np, 2 | 3 => rng.below(np as u64) as u32, _ => (p + 1 + rng.below(2) as u32).min(np - 1) };
                if ds.iter().any(|(x, _)| *x == q) { continue; }
                ds.push((q, rand_set(rng)));
            }
            reg.pkgs.entry(p).or_default().insert(v, Some(ds));
        }
    }
    reg
}

/// conflict-rich scope: 3-4 packages + an unknown one, 2-3 versions, many unavailable versions and
/// dependencies on sets without versions, mostly wide sets (so that re-decisions after a backtrack occur)
pub fn scenario_registry(rng: &mut Rng) -> Registry {
    let mut reg = Registry::default();
    let np = 3 + rng.below(2) as u32;
    let nv = 2 + rng.below(2) as u32;
    let sets = [vec![(Unbounded, Unbounded)], vec![(Unbounded, Unbounded)], vec![(Included(1u32), Included(1u32))],
                vec![(Included(2u32), Included(2u32))], vec![(Included(2u32), Unbounded)], vec![(Unbounded, Excluded(2u32))],
                vec![(Included(9u32), Included(9u32))], vec![]];
    for p in 0..np {
        for v in 1..=nv {
            if p > 0 && rng.chance(1, 8) { continue; }
            if p > 0 && rng.chance(1, 4) { reg.pkgs.entry(p).or_default().insert(v, None); continue; }
            let nd = if p == 0 { 1 + rng.below(3) } else { rng.below(3) };
            let mut ds: Vec<(u32, R)> = vec![];
            for _ in 0..nd {
                let q = if p == 0 { 1 + rng.below(np as u64 - 1) as u32 } else { rng.below(np as u64 + 1) as u32 };
                if ds.iter().any(|(x, _)| *x == q) { continue; }
                ds.push((q, mk(&sets[rng.below(sets.len() as u64) as usize])));
            }
            reg.pkgs.entry(p).or_default().insert(v, Some(ds));
        }
    }
    reg
}

/// deep scope: 5-7 packages, up to 3 versions (0..=2), 1-2 dependencies per version on any package (cycles back to
/// the root included) with sets from {any, == k, != k, < k, >= k}: most runs need several conflicts and learned
/// incompatibilities are reused (shared nodes in the derivation tree)
pub fn deep_registry(rng: &mut Rng) -> Registry {
    let mut reg = Registry::default();
    let np = 5 + rng.below(3) as u32;
    let set = |rng: &mut Rng| -> R {
        let k = rng.below(3) as u32;
        match rng.below(6) {
            0 => R::full(),
            1 => R::singleton(k),
            2 | 3 => R::singleton(k).complement(),
            4 => R::strictly_lower_than(k + 1),
            _ => R::higher_than(k),
        }
    };
    for p in 0..np {
        for v in 0..3u32 {
            if v > 0 && rng.chance(1, 3) { continue; }
            if p > 0 && rng.chance(1, 25) { reg.pkgs.entry(p).or_default().insert(v, None); continue; }
            let nd = if p == 0 { 2 } else { rng.below(3) };
            let mut ds: Vec<(u32, R)> = vec![];
            for _ in 0..nd {
                let q = if p == 0 { 1 + rng.below(np as u64 - 1) as u32 } else { rng.below(np as u64) as u32 };
                if q == p || ds.iter().any(|(x, _)| *x == q) { continue; }
                ds.push((q, set(rng)));
            }
            reg.pkgs.entry(p).or_default().insert(v, Some(ds));
        }
    }
    reg
}

/// family scope: the versions of a package mostly share their dependencies (as real packages do), and the packages at
/// the bottom cannot be satisfied: the same learned incompatibility is reused for version after version, so the
/// derivation trees are deep and have shared nodes
pub fn family_registry(rng: &mut Rng) -> Registry {
    let mut reg = Registry::default();
    let np = 4 + rng.below(3) as u32;
    let set = |rng: &mut Rng| -> R {
        let k = rng.below(3) as u32;
        match rng.below(7) {
            0 | 1 | 2 => R::full(),
            3 => R::singleton(k).complement(),
            4 => R::strictly_lower_than(k + 1),
            5 => R::higher_than(k),
            _ => R::singleton(k),
        }
    };
    for p in 0..np {
        // the family's base dependencies
        let nb = 1 + rng.below(2);
        let mut base: Vec<(u32, R)> = vec![];
        for _ in 0..nb {
            let q = if p + 1 >= np || rng.chance(1, 6) { if rng.chance(1, 2) { np } else { rng.below(np as u64) as u32 } }
                    else { p + 1 + rng.below((np - p - 1).min(2) as u64) as u32 };
            if q == p || base.iter().any(|(x, _)| *x == q) { continue; }
            let s = if q == np || rng.chance(1, 8) { R::singleton(9u32) } else { set(rng) };
            base.push((q, s));
        }
        let nv = if p == 0 { 1 } else { 2 + rng.below(2) as u32 };
        // some packages have versions that all depend on their own package (pinning themselves, or "at least me")
        let self_dep = if p > 0 && rng.chance(1, 6) { 1 + rng.below(2) } else { 0 };
        for v in 0..nv {
            if p > 0 && rng.chance(1, 30) { reg.pkgs.entry(p).or_default().insert(v, None); continue; }
            let mut ds: Vec<(u32, R)> = vec![];
            if self_dep == 1 { ds.push((p, R::singleton(v))); } else if self_dep == 2 { ds.push((p, R::higher_than(v))); }
            for (q, s) in &base {
                if rng.chance(1, 7) { continue; }
                ds.push((*q, if rng.chance(1, 4) { set(rng) } else { s.clone() }));
            }
            if rng.chance(1, 5) {
                let q = rng.below(np as u64) as u32;
                if q != p && !ds.iter().any(|(x, _)| *x == q) { ds.push((q, set(rng))); }
            }
            reg.pkgs.entry(p).or_default().insert(v, Some(ds));
        }
    }
    reg
}

/// wide scope: a conflict-rich core plus 33-38 independent filler packages required by every root version; with the
/// fillers decided first the core is solved 35 levels above the root, so conflicts jump back over many levels
pub fn wide_registry(rng: &mut Rng) -> (Registry, u32) {
    let mut reg = match rng.below(3) { 0 => scenario_registry(rng), 1 => deep_registry(rng), _ => family_registry(rng) };
    let nf = 33 + rng.below(6) as u32;
    for f in 0..nf { reg.pkgs.entry(100 + f).or_default().insert(1, Some(vec![])); }
    if let Some(vs) = reg.pkgs.get_mut(&0) {
        for (_, d) in vs.iter_mut() {
            if let Some(ds) = d { for f in 0..nf { ds.push((100 + f, R::full())); } }
        }
    }
    (reg, nf)
}

/// window scope: 4-6 packages with 3-9 versions each, dependencies on version windows [lo, hi) (sometimes a point or a
/// union of two points), a few unavailable versions: terms are narrowed step by step, candidates are rejected without a
/// decision (unavailable, or refused after a backtrack), packages are re-prioritized several times per decision level
pub fn window_registry(rng: &mut Rng) -> Registry {
    let mut reg = Registry::default();
    let np = 4 + rng.below(3) as u32;
    let nvs: Vec<u32> = (0..np).map(|p| if p == 0 { 1 } else { 3 + rng.below(7) as u32 }).collect();
    let window = |rng: &mut Rng, nv: u32| -> R {
        match rng.below(8) {
            0 => R::full(),
            1 => R::singleton(1 + rng.below(nv as u64) as u32),
            2 => R::singleton(1 + rng.below(nv as u64) as u32).union(&R::singleton(1 + rng.below(nv as u64) as u32)),
            _ => { let lo = 1 + rng.below(nv as u64) as u32; let hi = lo + 1 + rng.below(nv as u64) as u32; R::between(lo, hi) }
        }
    };
    for p in 0..np {
        for v in 1..=nvs[p as usize] {
            if p > 0 && rng.chance(1, 10) { reg.pkgs.entry(p).or_default().insert(v, None); continue; }
            let nd = if p == 0 { 2 + rng.below(2) } else { rng.below(3) };
            let mut ds: Vec<(u32, R)> = vec![];
            for _ in 0..nd {
                let q = 1 + rng.below(np as u64 - 1) as u32;
                if q == p || ds.iter().any(|(x, _)| *x == q) { continue; }
                ds.push((q, window(rng, nvs[q as usize])));
            }
            reg.pkgs.entry(p).or_default().insert(v, Some(ds));
        }
    }
    reg
}

/// corpus: registries kept from earlier findings and seeded changes (they run first, under every strategy below)
pub fn corpus() -> Vec<(Registry, (u32, u32))> {
    fn reg(items: &[(u32, u32, Option<Vec<(u32, R)>>)]) -> Registry {
        let mut r = Registry::default();
        for (p, v, d) in items { r.pkgs.entry(*p).or_default().insert(*v, d.clone()); }
        r
    }
    let ne = |k: u32| R::singleton(k).complement();
    let lt = |k: u32| R::strictly_lower_than(k);
    vec![
        // a learned incompatibility that is the second cause of a node and also occurs below its first cause
        (reg(&[(0, 0, Some(vec![(4, R::full()), (5, ne(1))])), (2, 0, Some(vec![(5, lt(1))])), (3, 0, Some(vec![(2, ne(1))])),
               (4, 0, Some(vec![(3, R::singleton(0u32))])), (4, 2, Some(vec![(2, lt(1))])),
               (5, 0, Some(vec![(0, R::between(2u32, 4u32))])), (5, 2, Some(vec![(2, lt(2))]))]), (0, 0)),
        // a package narrowed by the propagation that follows a backtrack which did not touch it
        (reg(&[(0, 1, Some(vec![(1, R::full()), (2, R::full())])), (2, 2, Some(vec![(3, R::singleton(2u32))])), (2, 1, Some(vec![])),
               (1, 2, Some(vec![(4, R::full())])), (1, 1, Some(vec![(3, R::full())])), (3, 2, Some(vec![(5, R::full())])), (3, 1, Some(vec![]))]), (0, 1)),
        // an unavailable version of a package required only by a version that is backtracked away
        (reg(&[(0, 1, Some(vec![(1, R::full())])), (1, 2, Some(vec![(2, R::full()), (3, R::full())])), (1, 1, Some(vec![])),
               (2, 1, Some(vec![])), (2, 2, None), (3, 1, Some(vec![(4, R::empty())])), (3, 2, Some(vec![(4, R::empty())])), (3, 3, Some(vec![(4, R::empty())]))]), (0, 1)),
        // two versions that each pin their own package, both fetched in one run (conflict, backtrack), the first needed again
        (reg(&[(0, 1, Some(vec![(1, R::full()), (2, R::full())])), (1, 1, Some(vec![])), (1, 2, Some(vec![])),
               (2, 2, Some(vec![(2, R::singleton(2u32)), (1, R::singleton(1u32))])),
               (2, 1, Some(vec![(2, R::singleton(1u32)), (3, R::empty())]))]), (0, 1)),
        // a learned incompatibility that is the first cause of a node and occurs again below that node's second cause
        (reg(&[(1, 8, Some(vec![])), (2, 3, Some(vec![(1, R::full())])), (3, 2, Some(vec![])), (3, 4, Some(vec![(1, R::between(6u32, 8u32))])),
               (4, 3, Some(vec![(2, R::higher_than(9u32))])), (4, 5, Some(vec![(1, R::higher_than(8u32)), (3, R::higher_than(4u32))])),
               (5, 2, Some(vec![(4, R::strictly_lower_than(1u32))])), (5, 3, Some(vec![(3, R::full()), (4, R::between(1u32, 6u32))])),
               (0, 4, Some(vec![(2, R::full()), (5, R::full())]))]), (0, 4)),
        // two picks at one decision level (an unavailable version in between) with a queued package narrowed again in the
        // second window by a remembered incompatibility
        ({ let mut items: Vec<(u32, u32, Option<Vec<(u32, R)>>)> = vec![
               (0, 1, Some(vec![(1, R::between(0u32, 2u32)), (3, R::between(1u32, 10u32)), (4, R::between(1u32, 4u32))])),
               (1, 1, Some(vec![(2, R::singleton(1u32)), (3, R::between(5u32, 10u32))])),
               (1, 0, Some(vec![(2, R::singleton(1u32).union(&R::singleton(2u32))), (3, R::between(1u32, 5u32))])),
               (2, 1, Some(vec![(3, R::between(1u32, 3u32))])), (2, 2, None)];
           for v in 1..=9u32 { items.push((3, v, Some(vec![]))); }
           for v in 1..=3u32 { items.push((4, v, Some(vec![]))); }
           reg(&items) }, (0, 1)),
        // a self-dependency decided first, then a conflict elsewhere and a re-decision outside the self-dependency's set
        (reg(&[(0, 1, Some(vec![(1, R::full())])), (1, 2, Some(vec![(1, R::higher_than(2u32)), (2, R::singleton(5u32))])), (1, 1, Some(vec![])), (2, 1, Some(vec![]))]), (0, 1)),
    ]
}

/// a random neighbour of a registry: 1-3 small edits (another set for a dependency, a dependency removed or added, a
/// version made unavailable / available / removed / duplicated) - the corpus registries are hard cases, their
/// neighbourhood tends to contain the hard cases of sibling defects
pub fn perturb(reg: &Registry, rng: &mut Rng) -> Registry {
    let mut r = reg.clone();
    let pk: Vec<u32> = r.pkgs.keys().copied().collect();
    if pk.is_empty() { return r; }
    let maxv = r.pkgs.values().flat_map(|m| m.keys().copied()).max().unwrap_or(1);
    let set = |rng: &mut Rng| -> R {
        let a = rng.below(maxv as u64 + 2) as u32;
        match rng.below(7) {
            0 => R::full(),
            1 => R::singleton(a),
            2 => R::singleton(a).complement(),
            3 => R::higher_than(a),
            4 => R::strictly_lower_than(a + 1),
            5 => R::between(a, a + 1 + rng.below(3) as u32),
            _ => R::singleton(a).union(&R::singleton(a + 1 + rng.below(2) as u32)),
        }
    };
    for _ in 0..(1 + rng.below(3)) {
        let p = pk[rng.below(pk.len() as u64) as usize];
        let vs: Vec<u32> = r.pkgs[&p].keys().copied().collect();
        if vs.is_empty() { continue; }
        let v = vs[rng.below(vs.len() as u64) as usize];
        let q = pk[rng.below(pk.len() as u64) as usize];
        let m = r.pkgs.get_mut(&p).unwrap();
        match rng.below(8) {
            0 | 1 | 2 => { if let Some(Some(ds)) = m.get_mut(&v) { if !ds.is_empty() { let i = rng.below(ds.len() as u64) as usize; ds[i].1 = set(rng); } } }
            3 => { if let Some(Some(ds)) = m.get_mut(&v) { if !ds.is_empty() { let i = rng.below(ds.len() as u64) as usize; ds.remove(i); } } }
            4 => { if let Some(Some(ds)) = m.get_mut(&v) { if q != 0 && !ds.iter().any(|(x, _)| *x == q) { ds.push((q, set(rng))); } } }
            5 => { if p != 0 { let cur = m.get(&v).cloned(); m.insert(v, match cur { Some(Some(_)) => None, _ => Some(vec![]) }); } }
            6 => { if p != 0 && vs.len() > 1 { m.remove(&v); } }
            _ => { if p != 0 { let d = m.get(&v).cloned().unwrap_or(None); m.insert(maxv + 1, d); } }
        }
    }
    r
}

fn all_perms(n: usize) -> Vec<Vec<i64>> {
    fn rec(cur: &mut Vec<i64>, used: &mut Vec<bool>, n: usize, out: &mut Vec<Vec<i64>>) {
        if cur.len() == n { out.push(cur.clone()); return; }
        for i in 0..n { if !used[i] { used[i] = true; cur.push(i as i64); rec(cur, used, n, out); cur.pop(); used[i] = false; } }
    }
    let mut out = vec![];
    rec(&mut vec![], &mut vec![false; n], n, &mut out);
    out
}

fn perm(rng: &mut Rng, n: usize) -> Vec<i64> {
    let mut v: Vec<i64> = (0..n as i64).collect();
    for i in (1..n).rev() { let j = rng.below(i as u64 + 1) as usize; v.swap(i, j); }
    if rng.chance(1, 3) && n > 1 { v[0] = v[1]; } // ties
    v
}

pub static DIV: std::sync::atomic::AtomicU64 = std::sync::atomic::AtomicU64::new(1);

pub fn generate(out: &mut Out, rng: &mut Rng, thorough: bool, which: &str) {
    let div = DIV.load(std::sync::atomic::Ordering::SeqCst) as usize;
    if which == "solver" {
        // corpus first, then the deep scope, each under a grid of strategies
        let strategies = |np: usize, rng: &mut Rng, all: bool| -> Vec<(ChooseMode, PrioMode)> {
            let mut v = vec![];
            for choose in [ChooseMode::Newest, ChooseMode::Oldest] {
                v.push((choose.clone(), PrioMode::Count));
                v.push((choose.clone(), PrioMode::CountThen(true)));
                v.push((choose.clone(), PrioMode::CountThen(false)));
                let n = if all { 6 } else { 1 };
                for _ in 0..n { v.push((choose.clone(), PrioMode::Static(perm(rng, np)))); }
            }
            v
        };
        {
            // a package first excluded at the root level, required again 35 levels up by a version that is then
            // backtracked away over all those levels (range-dependent priorities)
            let mut reg = Registry::default();
            let mut root_deps = vec![(1u32, R::full()), (3u32, R::full())];
            for f in 0..34u32 { root_deps.push((100 + f, R::full())); reg.pkgs.entry(100 + f).or_default().insert(1, Some(vec![])); }
            reg.pkgs.entry(0).or_default().insert(1, Some(root_deps));
            reg.pkgs.entry(1).or_default().insert(1, Some(vec![]));
            reg.pkgs.entry(1).or_default().insert(2, Some(vec![(2, R::full()), (4, R::full())]));
            reg.pkgs.entry(2).or_default().insert(1, Some(vec![]));
            reg.pkgs.entry(2).or_default().insert(2, Some(vec![(3, R::singleton(2u32))]));
            reg.pkgs.entry(3).or_default().insert(1, Some(vec![]));
            reg.pkgs.entry(3).or_default().insert(2, Some(vec![(5, R::empty())]));
            reg.pkgs.entry(4).or_default().insert(1, Some(vec![(3, R::singleton(2u32))]));
            let table = PrioMode::Table(vec![(u32::MAX, None, 100), (1, None, 90), (2, Some(R::full()), 80),
                                             (3, Some(R::singleton(2u32)), 70), (4, None, 50)], 10);
            for choose in [ChooseMode::Newest, ChooseMode::Oldest] {
                run_and_emit(out, &reg, (0, 1), &choose, &table, &[], false);
            }
        }
        for (reg, root) in corpus() {
            let np = reg.pkgs.keys().max().copied().unwrap_or(0) as usize + 2;
            for (choose, prio) in strategies(np, rng, true) { run_and_emit(out, &reg, root, &choose, &prio, &[], false); }
            // every static priority order of the packages (the corpus is small)
            if np <= 7 {
                for pm in all_perms(np - 1) {
                    let mut pm = pm.clone(); pm.resize(np + 1, -1);
                    for choose in [ChooseMode::Newest, ChooseMode::Oldest] {
                        run_and_emit(out, &reg, root, &choose, &PrioMode::Static(pm.clone()), &[], false);
                    }
                }
            }
        }
        // neighbourhoods of the corpus registries
        let nper = if thorough { 4000 / div } else { 120 };
        for (reg0, root) in corpus() {
            for _ in 0..nper {
                let reg = perturb(&reg0, rng);
                let np = reg.pkgs.keys().max().copied().unwrap_or(0) as usize + 2;
                for (choose, prio) in strategies(np, rng, false) { run_and_emit(out, &reg, root, &choose, &prio, &[], false); }
            }
        }
        let nwin = if thorough { 30000 / div } else { 2500 };
        for _ in 0..nwin {
            let reg = window_registry(rng);
            let np = reg.pkgs.keys().max().copied().unwrap_or(0) as usize + 2;
            for (choose, prio) in strategies(np, rng, false) { run_and_emit(out, &reg, (0, 1), &choose, &prio, &[], false); }
        }
        let ndeep = if thorough { 16000 / div } else { 2500 };
        for i in 0..ndeep {
            let reg = if i % 2 == 0 { family_registry(rng) } else { deep_registry(rng) };
            let np = reg.pkgs.keys().max().copied().unwrap_or(0) as usize + 2;
            for (choose, prio) in strategies(np, rng, false) { run_and_emit(out, &reg, (0, 0), &choose, &prio, &[], false); }
        }
        // wide scope: fillers first (static priorities) / fewest-versions first
        let nwide = if thorough { 6000 / div } else { 300 };
        for _ in 0..nwide {
            let (reg, _nf) = wide_registry(rng);
            let rv = *reg.pkgs.get(&0).and_then(|m| m.keys().next()).unwrap_or(&0);
            let ncore = reg.pkgs.keys().filter(|p| **p < 100).max().copied().unwrap_or(0) as usize + 2;
            for choose in [ChooseMode::Newest, ChooseMode::Oldest] {
                for _ in 0..2 {
                    let mut pm = perm(rng, ncore);
                    pm.resize(200, 1000);           // every filler has a higher priority than the core
                    run_and_emit(out, &reg, (0, rv), &choose, &PrioMode::Static(pm), &[], false);
                }
                run_and_emit(out, &reg, (0, rv), &choose, &PrioMode::CountThen(false), &[], false);
            }
        }
        // tiny scope: all scripts per registry
        let ntiny = if thorough { 50625 / div } else { 1200 };
        for i in 0..ntiny {
            let code = if thorough && div == 1 { i as u64 } else { rng.below(50625) };
            let reg = tiny_registry(code);
            for rv in 1..=2 { enumerate_scripts(out, &reg, (0, rv), if thorough { 200 } else { 24 }, true); }
        }
        let nsmall = if thorough { 60000 / div } else { 1500 };
        for _ in 0..nsmall {
            let reg = small_registry(rng);
            let rv = 1 + rng.below(3) as u32;
            enumerate_scripts(out, &reg, (0, rv), if thorough { 32 } else { 6 }, rng.chance(1, 2));
        }
        // conflict-rich scope: newest/oldest choice x every static priority order of the packages
        let nscen = if thorough { 40000 / div } else { 1500 };
        for _ in 0..nscen {
            let reg = scenario_registry(rng);
            let rv = 1 + rng.below(2) as u32;
            let np = reg.pkgs.keys().max().copied().unwrap_or(0) as usize + 2;
            let perms = all_perms(np.min(5));
            for choose in [ChooseMode::Newest, ChooseMode::Oldest] {
                // a seeded third of the permutations (quick) / all (thorough)
                for (i, pm) in perms.iter().enumerate() {
                    if !thorough && (i as u64 + rng.below(3)) % 3 != 0 { continue; }
                    let mut pm = pm.clone(); pm.resize(np + 1, -1);
                    run_and_emit(out, &reg, (0, rv), &choose, &PrioMode::Static(pm), &[], false);
                }
            }
        }
        let nrand = if thorough { 100000 / div } else { 2500 };
        for _ in 0..nrand {
            let reg = random_registry(rng);
            let rv = 1 + rng.below(3) as u32;
            let np = reg.pkgs.len() + 2;
            let choose = match rng.below(3) { 0 => ChooseMode::Newest, 1 => ChooseMode::Oldest, _ => ChooseMode::Script };
            let prio = match rng.below(4) { 0 => PrioMode::Count, 1 => PrioMode::Static(perm(rng, np)), 2 => PrioMode::Hash(rng.next()), _ => PrioMode::Script };
            let script: Vec<u32> = (0..40).map(|_| rng.below(7) as u32).collect();
            run_and_emit(out, &reg, (0, rv), &choose, &prio, &script, true);
        }
    } else {
        // "faults": for each base run, inject a fault at every index of its trace
        let nbase = if thorough { 20000 / div } else { 400 };
        for i in 0..nbase {
            let reg = if i % 3 == 0 { tiny_registry(rng.below(50625)) } else if i % 3 == 1 { small_registry(rng) } else { random_registry(rng) };
            let rv = 1 + rng.below(2) as u32;
            let choose = match rng.below(3) { 0 => ChooseMode::Newest, 1 => ChooseMode::Oldest, _ => ChooseMode::Script };
            let prio = match rng.below(3) { 0 => PrioMode::Count, 1 => PrioMode::Static(perm(rng, 10)), _ => PrioMode::Script };
            let script: Vec<u32> = (0..40).map(|_| rng.below(7) as u32).collect();
            let base = run_once::<u32>(&reg, (0, rv), &choose, &prio, &script, &Fault::None);
            let btr: Vec<String> = base.trace.iter().map(ev_sx).collect();
            let maxk = base.trace.len().min(if thorough { 400 } else { 60 });
            for k in 0..maxk {
                let kinds: Vec<Fault> = match &base.trace[k] {
                    Ev::Prio(..) => vec![],
                    Ev::Choose(..) => vec![Fault::ErrAt(k), Fault::OutOfSetAt(k)],
                    _ => vec![Fault::ErrAt(k)],
                };
                for f in kinds {
                    let o = run_once::<u32>(&reg, (0, rv), &choose, &prio, &script, &f);
                    let extra = format!(" (fault {} {}) (base {})", k, matches!(f, Fault::OutOfSetAt(_)) as u8, btr.join(" "));
                    emit_run(out, "solve", "int", &reg, (0, rv), &o, &extra);
                }
            }
        }
    }
}

pub fn eval(_c: &Sx) -> String {
    // replay of a recorded solver case re-runs the registry with a provider that answers from the trace
    crate::solver_replay::eval(_c)
}
