//! C08 (domain "report") and C09 (domain "collapse"): DefaultStringReporter and
//! DerivationTree::collapse_no_versions against Model/Report.v.
//!
//! case   = (report|collapse SRC WORLD TREE)
//!   SRC   = solver | synth | solver-post | synth-post        (-post: TREE is the result of collapse_no_versions)
//!   WORLD = (world (root p v) (reg ...))                     for trees produced by resolve
//!         | (world (excl (p segs)...))                       for synthetic DAGs: per package, the union of the
//!                                                            NoVersions sets of the original tree (= versions that do not exist)
//!   TREE  = the syntax of solver::tree_sx
//! report observation   = (steps STEP...) (same 0|1)
//! collapse observation = (panic) | (tree TREE') (steps STEP...)
//!   STEP = (s (both-ext E1 E2 CONCL) (n...)) | (s (both-ref r1 T1 r2 T2 CONCL) (n...)) | (s (ref-ext r T E CONCL) (n...))
//!        | (s (and-ext E CONCL) (n...)) | (s (and-ref r T CONCL) (n...)) | (s (and-prior PE E CONCL) (n...))
//!        | (s blank (n...)) | (s (only-ext E) (n...))
use crate::ranges::{build, parse_segs, range_sx, R};
use crate::sexp::Sx;
use crate::solver::{
    random_registry, reg_sx, run_once, small_registry, tiny_registry, tree_sx, ChooseMode, Fault, PrioMode, Registry,
};
use crate::{Out, Rng};
use pubgrub::{
    DefaultStringReportFormatter, DefaultStringReporter, DerivationTree, Derived, External, Map, ReportFormatter,
    Reporter, Term,
};
use std::cell::RefCell;
use std::collections::{BTreeMap, HashMap, HashSet};
use std::sync::Arc;

type T = DerivationTree<u32, R, String>;
type E = External<u32, R, String>;
type D = Derived<u32, R, String>;
type TM = Map<u32, Term<R>>;

// ------------------------------------------------------------------------------------------ syntax

fn term_sx(t: &Term<R>) -> String {
    match t { Term::Positive(r) => format!("(p {})", range_sx(r)), Term::Negative(r) => format!("(n {})", range_sx(r)) }
}
fn terms_sx(m: &TM) -> String {
    let mut ts: Vec<(u32, String)> = m.iter().map(|(p, t)| (*p, term_sx(t))).collect();
    ts.sort();
    format!("({})", ts.iter().map(|(p, t)| format!("({} {})", p, t)).collect::<Vec<_>>().join(" "))
}
fn ext_sx(e: &E) -> String { tree_sx::<u32>(&DerivationTree::External(e.clone())) }

fn set_of(x: &Sx) -> R { build(0, &parse_segs(x)) }

/// rebuild a real DerivationTree; nodes carrying the same shared id become one Arc (as resolve builds them)
fn parse_tree(x: &Sx, memo: &mut HashMap<usize, Arc<T>>) -> Arc<T> {
    let l = x.list();
    match l[0].atom() {
        "ext" => Arc::new(DerivationTree::External(match l[1].atom() {
            "notroot" => External::NotRoot(l[2].int() as u32, l[3].int() as u32),
            "nov" => External::NoVersions(l[2].int() as u32, set_of(&l[3])),
            "dep" => External::FromDependencyOf(l[2].int() as u32, set_of(&l[3]), l[4].int() as u32, set_of(&l[5])),
            "custom" => External::Custom(l[2].int() as u32, set_of(&l[3]), "u".to_string()),
            _ => panic!("ext"),
        })),
        "der" => {
            let sh: Option<usize> = match l[1].atom() { "none" => None, k => Some(k.parse().unwrap()) };
            if let Some(k) = sh { if let Some(a) = memo.get(&k) { return a.clone(); } }
            let mut terms: TM = Map::default();
            for e in l[2].list() {
                let e = e.list();
                let t = e[1].list();
                let s = set_of(&t[1]);
                terms.insert(e[0].int() as u32, if t[0].atom() == "p" { Term::Positive(s) } else { Term::Negative(s) });
            }
            let c1 = parse_tree(&l[3], memo);
            let c2 = parse_tree(&l[4], memo);
            let a = Arc::new(DerivationTree::Derived(Derived { terms, shared_id: sh, cause1: c1, cause2: c2 }));
            if let Some(k) = sh { memo.insert(k, a.clone()); }
            a
        }
        _ => panic!("tree"),
    }
}

// ------------------------------------------------------------------------------------------ recording formatter

#[derive(Clone)]
enum Rec {
    BothExt(E, E, TM),
    BothRef(usize, D, usize, D, TM),
    RefExt(usize, D, E, TM),
    AndExt(E, TM),
    AndRef(usize, D, TM),
    AndPrior(E, E, TM),
    OnlyExt(E),
}

fn rec_sx(r: &Rec) -> String {
    match r {
        Rec::BothExt(a, b, c) => format!("(both-ext {} {} {})", ext_sx(a), ext_sx(b), terms_sx(c)),
        Rec::BothRef(r1, d1, r2, d2, c) => format!("(both-ref {} {} {} {} {})", r1, terms_sx(&d1.terms), r2, terms_sx(&d2.terms), terms_sx(c)),
        Rec::RefExt(r, d, e, c) => format!("(ref-ext {} {} {} {})", r, terms_sx(&d.terms), ext_sx(e), terms_sx(c)),
        Rec::AndExt(e, c) => format!("(and-ext {} {})", ext_sx(e), terms_sx(c)),
        Rec::AndRef(r, d, c) => format!("(and-ref {} {} {})", r, terms_sx(&d.terms), terms_sx(c)),
        Rec::AndPrior(a, b, c) => format!("(and-prior {} {} {})", ext_sx(a), ext_sx(b), terms_sx(c)),
        Rec::OnlyExt(e) => format!("(only-ext {})", ext_sx(e)),
    }
}

/// what the default formatter makes of the same arguments
fn rec_default(r: &Rec) -> String {
    let f = DefaultStringReportFormatter;
    match r {
        Rec::BothExt(a, b, c) => ReportFormatter::<u32, R, String>::explain_both_external(&f, a, b, c),
        Rec::BothRef(r1, d1, r2, d2, c) => ReportFormatter::<u32, R, String>::explain_both_ref(&f, *r1, d1, *r2, d2, c),
        Rec::RefExt(r, d, e, c) => ReportFormatter::<u32, R, String>::explain_ref_and_external(&f, *r, d, e, c),
        Rec::AndExt(e, c) => ReportFormatter::<u32, R, String>::and_explain_external(&f, e, c),
        Rec::AndRef(r, d, c) => ReportFormatter::<u32, R, String>::and_explain_ref(&f, *r, d, c),
        Rec::AndPrior(a, b, c) => ReportFormatter::<u32, R, String>::and_explain_prior_and_external(&f, a, b, c),
        Rec::OnlyExt(e) => ReportFormatter::<u32, R, String>::format_external(&f, e),
    }
}

struct Recorder { log: RefCell<Vec<Rec>> }
impl Recorder {
    fn add(&self, r: Rec) -> String { let s = rec_sx(&r); self.log.borrow_mut().push(r); s }
}
impl ReportFormatter<u32, R, String> for Recorder {
    type Output = String;
    fn format_external(&self, e: &E) -> String { self.add(Rec::OnlyExt(e.clone())) }
    fn format_terms(&self, t: &TM) -> String { format!("(terms {})", terms_sx(t)) }
    fn explain_both_external(&self, a: &E, b: &E, c: &TM) -> String { self.add(Rec::BothExt(a.clone(), b.clone(), c.clone())) }
    fn explain_both_ref(&self, r1: usize, d1: &D, r2: usize, d2: &D, c: &TM) -> String {
        self.add(Rec::BothRef(r1, d1.clone(), r2, d2.clone(), c.clone()))
    }
    fn explain_ref_and_external(&self, r: usize, d: &D, e: &E, c: &TM) -> String { self.add(Rec::RefExt(r, d.clone(), e.clone(), c.clone())) }
    fn and_explain_external(&self, e: &E, c: &TM) -> String { self.add(Rec::AndExt(e.clone(), c.clone())) }
    fn and_explain_ref(&self, r: usize, d: &D, c: &TM) -> String { self.add(Rec::AndRef(r, d.clone(), c.clone())) }
    fn and_explain_prior_and_external(&self, a: &E, b: &E, c: &TM) -> String { self.add(Rec::AndPrior(a.clone(), b.clone(), c.clone())) }
}

/// histogram of reporter paths (see `classify`)
#[derive(Default)]
pub struct Hist { pub h: BTreeMap<&'static str, u64> }
impl Hist {
    fn bump(&mut self, k: &'static str) { *self.h.entry(k).or_insert(0) += 1; }
}
thread_local! { static HIST: RefCell<Hist> = RefCell::new(Hist::default()); }

/// (steps …) (same b): the decoded lines of report_with_formatter(recording formatter), and whether
/// report() = report_with_formatter(default formatter) = the default formatter applied to the recorded arguments
fn report_obs(tree: &T) -> String {
    let rec = Recorder { log: RefCell::new(vec![]) };
    let text = DefaultStringReporter::report_with_formatter(tree, &rec);
    let log = rec.log.into_inner();
    let mut steps: Vec<String> = vec![];
    let mut rebuilt: Vec<String> = vec![];
    let mut k = 0usize;
    let mut ok = true;
    let mut blanks = 0u64;
    let mut unshared_refs = 0u64;
    for line in text.split('\n') {
        let sx = match crate::sexp::parse(&format!("({})", line)) { Some(s) => s, None => { steps.push("(undecodable)".into()); ok = false; continue; } };
        let items = sx.list();
        let (head, rest): (Option<&Sx>, &[Sx]) = match items.first() {
            Some(Sx::L(v)) if matches!(v.first(), Some(Sx::A(a)) if a.contains('-')) => (Some(&items[0]), &items[1..]),
            _ => (None, items),
        };
        let mut nums: Vec<String> = vec![];
        for n in rest {
            match n { Sx::L(v) if v.len() == 1 => nums.push(v[0].atom().to_string()), _ => { ok = false; nums.push("?".into()); } }
        }
        let suffix: String = nums.iter().map(|n| format!(" ({})", n)).collect();
        match head {
            None => {
                steps.push(format!("(s blank ({}))", nums.join(" ")));
                // add_line_ref on an empty line would give " (n)"
                rebuilt.push(suffix.clone());
                blanks += 1;
            }
            Some(_) => {
                if k >= log.len() { ok = false; steps.push("(unrecorded)".into()); continue; }
                let enc = rec_sx(&log[k]);
                // the line must start with exactly the text the k-th callback returned
                if !line.starts_with(&enc) { ok = false; }
                steps.push(format!("(s {} ({}))", enc, nums.join(" ")));
                rebuilt.push(format!("{}{}", rec_default(&log[k]), suffix));
                HIST.with(|h| {
                    let mut h = h.borrow_mut();
                    match &log[k] {
                        Rec::BothExt(..) => h.bump("explain_both_external"),
                        Rec::BothRef(..) => h.bump("explain_both_ref"),
                        Rec::RefExt(..) => h.bump("explain_ref_and_external"),
                        Rec::AndExt(..) => h.bump("and_explain_external"),
                        Rec::AndPrior(..) => h.bump("and_explain_prior_and_external"),
                        Rec::AndRef(_, d, _) => {
                            if d.shared_id.is_some() { h.bump("and_explain_ref(shared cause)"); }
                            else { h.bump("and_explain_ref(unshared cause: add_line_ref + blank + recurse)"); unshared_refs += 1; }
                        }
                        Rec::OnlyExt(..) => h.bump("format_external(top is a leaf)"),
                    }
                });
                k += 1;
            }
        }
    }
    if k != log.len() { ok = false; }
    let d1 = DefaultStringReporter::report(tree);
    let d2 = DefaultStringReporter::report_with_formatter(tree, &DefaultStringReportFormatter);
    let d3 = rebuilt.join("\n");
    let same = ok && d1 == d2 && d1 == d3;
    HIST.with(|h| {
        let mut h = h.borrow_mut();
        for _ in 0..blanks { h.bump("blank line"); }
        for _ in 0..blanks.saturating_sub(unshared_refs) { h.bump("re-entry build_recursive(current) after a shared first cause"); }
        h.bump("reports");
        if has_shared(tree) { h.bump("reports of trees with shared nodes"); }
    });
    format!("(steps {}) (same {})", steps.join(" "), same as u8)
}

fn has_shared(t: &T) -> bool {
    match t {
        DerivationTree::External(_) => false,
        DerivationTree::Derived(d) => d.shared_id.is_some() || has_shared(&d.cause1) || has_shared(&d.cause2),
    }
}

fn collapse(tree: &T) -> Option<T> {
    let mut c = tree.clone();
    let r = std::panic::catch_unwind(std::panic::AssertUnwindSafe(|| { c.collapse_no_versions(); c }));
    r.ok()
}

pub fn eval(c: &Sx) -> String {
    let l = c.list();
    let mut memo = HashMap::new();
    let tree = parse_tree(&l[3], &mut memo);
    match l[0].atom() {
        "report" => report_obs(&tree),
        "collapse" => match collapse(&tree) {
            None => "(panic)".to_string(),
            Some(t2) => format!("(tree {}) {}", tree_sx::<u32>(&t2), {
                let o = report_obs(&t2);
                // only the steps: the `same` flag belongs to the report domain
                o[..o.rfind(" (same").unwrap()].to_string()
            }),
        },
        _ => panic!("report: unknown case"),
    }
}

// ------------------------------------------------------------------------------------------ inputs

struct Input { src: &'static str, world: String, tree: String }

fn nosol_tree(result: &str) -> Option<String> {
    result.strip_prefix("(nosol ").map(|s| s[..s.len() - 1].to_string())
}

fn all_scripts(reg: &Registry, root: (u32, u32), cap: usize, prio_script: bool, f: &mut dyn FnMut(&str)) {
    // same stateless DFS as solver::enumerate_scripts
    let choose = ChooseMode::Script;
    let prio = if prio_script { PrioMode::Script } else { PrioMode::Count };
    let mut script: Vec<u32> = vec![];
    let mut n = 0;
    loop {
        let o = run_once::<u32>(reg, root, &choose, &prio, &script, &Fault::None);
        f(&o.result);
        n += 1;
        if n >= cap { return; }
        let mut cur: Vec<u32> = (0..o.branching.len()).map(|i| script.get(i).copied().unwrap_or(0)).collect();
        let mut i = cur.len();
        loop {
            if i == 0 { return; }
            i -= 1;
            if o.branching[i] > 0 && cur[i] + 1 < o.branching[i] { cur[i] += 1; cur.truncate(i + 1); break; }
        }
        script = cur;
    }
}

fn solver_inputs(rng: &mut Rng, thorough: bool, sink: &mut Vec<Input>) {
    let mut seen: HashSet<String> = HashSet::new();
    let mut single_leaf = 0u32;
    let mut push = |reg: &Registry, root: (u32, u32), result: &str, sink: &mut Vec<Input>| {
        if let Some(t) = nosol_tree(result) {
            // trees that are one external leaf are reported by format_external alone: keep a few hundred
            if t.starts_with("(ext") { single_leaf += 1; if single_leaf > 400 { return; } }
            let world = format!("(world (root {} {}) {})", root.0, root.1, reg_sx(reg));
            if seen.insert(format!("{} {}", world, t)) { sink.push(Input { src: "solver", world, tree: t }); }
        }
    };
    let ntiny = if thorough { 50625 } else { 1500 };
    for i in 0..ntiny {
        let code = if thorough { i as u64 } else { rng.below(50625) };
        let reg = tiny_registry(code);
        for rv in 1..=2 {
            let mut rs: Vec<String> = vec![];
            all_scripts(&reg, (0, rv), if thorough { 200 } else { 16 }, true, &mut |r| rs.push(r.to_string()));
            for r in rs { push(&reg, (0, rv), &r, sink); }
        }
    }
    let nsmall = if thorough { 60000 } else { 2500 };
    for _ in 0..nsmall {
        let reg = small_registry(rng);
        let rv = 1 + rng.below(3) as u32;
        let ps = rng.chance(1, 2);
        let mut rs: Vec<String> = vec![];
        all_scripts(&reg, (0, rv), if thorough { 32 } else { 6 }, ps, &mut |r| rs.push(r.to_string()));
        for r in rs { push(&reg, (0, rv), &r, sink); }
    }
    let nrand = if thorough { 200000 } else { 12000 };
    for _ in 0..nrand {
        let reg = random_registry(rng);
        let rv = 1 + rng.below(3) as u32;
        let np = reg.pkgs.len() + 2;
        let choose = match rng.below(3) { 0 => ChooseMode::Newest, 1 => ChooseMode::Oldest, _ => ChooseMode::Script };
        let prio = match rng.below(4) {
            0 => PrioMode::Count,
            1 => { let mut v: Vec<i64> = (0..np as i64).collect(); for i in (1..np).rev() { let j = rng.below(i as u64 + 1) as usize; v.swap(i, j); } PrioMode::Static(v) }
            2 => PrioMode::Hash(rng.next()),
            _ => PrioMode::Script,
        };
        let script: Vec<u32> = (0..40).map(|_| rng.below(7) as u32).collect();
        let o = run_once::<u32>(&reg, (0, rv), &choose, &prio, &script, &Fault::None);
        push(&reg, (0, rv), &o.result, sink);
    }
}

// synthetic DAGs ---------------------------------------------------------------------------

#[derive(Clone)]
enum NK { Leaf(E), Der(usize, usize) }
#[derive(Clone)]
struct Node { terms: BTreeMap<u32, Term<R>>, kind: NK }

fn rand_set(rng: &mut Rng, nv: u32) -> R {
    use std::ops::Bound::{Excluded, Included, Unbounded};
    let mut r = R::empty();
    for _ in 0..(1 + rng.below(2)) {
        let a = 1 + rng.below(nv as u64) as u32;
        let b = a + rng.below(2) as u32;
        let s = match rng.below(3) { 0 => Included(a), 1 => Excluded(a.saturating_sub(1)), _ => Unbounded };
        let e = match rng.below(3) { 0 => Included(b), 1 => Excluded(b + 1), _ => Unbounded };
        r = r.union(&R::from_range_bounds((s, e)));
    }
    if rng.chance(1, 6) { r = r.complement(); }
    if rng.chance(1, 25) { r = R::empty(); }
    if rng.chance(1, 25) { r = R::full(); }
    r
}

fn leaf_terms(e: &E) -> BTreeMap<u32, Term<R>> {
    let mut m = BTreeMap::new();
    match e {
        External::NotRoot(p, v) => { m.insert(*p, Term::Negative(R::singleton(*v))); }
        External::NoVersions(p, s) | External::Custom(p, s, _) => { m.insert(*p, Term::Positive(s.clone())); }
        External::FromDependencyOf(p, s, q, t) => {
            // as Incompatibility::from_dependency builds them (empty dependency set / self-dependency included)
            if *t == R::empty() { m.insert(*p, Term::Positive(s.clone())); }
            else if p == q { m.insert(*p, Term::Positive(s.intersection(&t.complement()))); }
            else { m.insert(*p, Term::Positive(s.clone())); m.insert(*q, Term::Negative(t.clone())); }
        }
    }
    m
}

/// rule of resolution on `pivot`: union of the two terms there, intersection elsewhere, always-true term dropped
fn resolvent(a: &BTreeMap<u32, Term<R>>, b: &BTreeMap<u32, Term<R>>, pivot: u32) -> BTreeMap<u32, Term<R>> {
    let mut m = BTreeMap::new();
    let any: Term<R> = Term::Negative(R::empty());
    for (p, t) in a.iter() {
        match b.get(p) {
            None => { m.insert(*p, t.clone()); }
            Some(u) => {
                if *p == pivot {
                    let x = pubgrub::verif_term::union(t, u);
                    if x != any { m.insert(*p, x); }
                } else {
                    m.insert(*p, pubgrub::verif_term::intersection(t, u));
                }
            }
        }
    }
    for (p, u) in b.iter() { if !a.contains_key(p) { m.insert(*p, u.clone()); } }
    m
}

fn synth_dag(rng: &mut Rng) -> Option<(String, String)> {
    let np = 2 + rng.below(4) as u32;
    let nv = 2 + rng.below(3) as u32;
    let mut nodes: Vec<Node> = vec![];
    let nleaves = 3 + rng.below(6);
    let root_leaf = rng.chance(1, 2);
    for i in 0..nleaves {
        let e: E = if i == 0 && root_leaf { External::NotRoot(0, 1 + rng.below(nv as u64) as u32) } else {
            match rng.below(10) {
                0 | 1 | 2 => External::NoVersions(rng.below(np as u64) as u32, rand_set(rng, nv)),
                3 => External::Custom(rng.below(np as u64) as u32, rand_set(rng, nv), "u".to_string()),
                _ => {
                    let p = rng.below(np as u64) as u32;
                    let q = if rng.chance(1, 15) { p } else { (p + 1 + rng.below(np as u64 - 1) as u32) % np };
                    External::FromDependencyOf(p, rand_set(rng, nv), q, rand_set(rng, nv))
                }
            }
        };
        nodes.push(Node { terms: leaf_terms(&e), kind: NK::Leaf(e) });
    }
    let nsteps = 1 + rng.below(12);
    let mut made = 0;
    let mut tries = 0;
    while made < nsteps && tries < 200 {
        tries += 1;
        let n = nodes.len() as u64;
        // favour recent nodes as first cause, anything (so: re-use) as the second
        let i = if rng.chance(2, 3) && n > nleaves { (nleaves + rng.below(n - nleaves)) as usize } else { rng.below(n) as usize };
        let j = rng.below(n) as usize;
        if i == j { continue; }
        // a NoVersions leaf directly against NotRoot is the documented panic of collapse: keep it rare
        let is = |k: usize, f: &dyn Fn(&E) -> bool| matches!(&nodes[k].kind, NK::Leaf(e) if f(e));
        let nov = |e: &E| matches!(e, External::NoVersions(..));
        let nr = |e: &E| matches!(e, External::NotRoot(..));
        if ((is(i, &nov) && is(j, &nr)) || (is(i, &nr) && is(j, &nov))) && !rng.chance(1, 10) { continue; }
        let common: Vec<u32> = nodes[i].terms.keys().filter(|p| nodes[j].terms.contains_key(p)).copied().collect();
        if common.is_empty() { continue; }
        let pivot = common[rng.below(common.len() as u64) as usize];
        let terms = resolvent(&nodes[i].terms, &nodes[j].terms, pivot);
        let (c1, c2) = if rng.chance(1, 2) { (i, j) } else { (j, i) };
        nodes.push(Node { terms, kind: NK::Der(c1, c2) });
        made += 1;
    }
    if made == 0 { return None; }
    let top = nodes.len() - 1;
    // in-degree inside the DAG reachable from the top
    let mut indeg = vec![0usize; nodes.len()];
    let mut reach = vec![false; nodes.len()];
    let mut stack = vec![top];
    while let Some(k) = stack.pop() {
        if reach[k] { continue; }
        reach[k] = true;
        if let NK::Der(a, b) = nodes[k].kind { indeg[a] += 1; indeg[b] += 1; stack.push(a); stack.push(b); }
    }
    // unfolded size
    let mut size = vec![0u64; nodes.len()];
    for k in 0..nodes.len() { size[k] = match nodes[k].kind { NK::Leaf(_) => 1, NK::Der(a, b) => 1 + size[a] + size[b] }; }
    if size[top] > 250 { return None; }
    let mut built: Vec<Option<Arc<T>>> = vec![None; nodes.len()];
    for k in 0..nodes.len() {
        if !reach[k] { continue; }
        built[k] = Some(Arc::new(match &nodes[k].kind {
            NK::Leaf(e) => DerivationTree::External(e.clone()),
            NK::Der(a, b) => {
                let mut terms: TM = Map::default();
                for (p, t) in nodes[k].terms.iter() { terms.insert(*p, t.clone()); }
                DerivationTree::Derived(Derived {
                    terms, shared_id: if indeg[k] >= 2 { Some(k) } else { None },
                    cause1: built[*a].clone().unwrap(), cause2: built[*b].clone().unwrap(),
                })
            }
        }));
    }
    // versions that "do not exist": the union of the NoVersions sets per package
    let mut excl: BTreeMap<u32, R> = BTreeMap::new();
    for k in 0..nodes.len() {
        if !reach[k] { continue; }
        if let NK::Leaf(External::NoVersions(p, s)) = &nodes[k].kind {
            let cur = excl.get(p).cloned().unwrap_or_else(R::empty);
            excl.insert(*p, cur.union(s));
        }
    }
    let world = format!("(world (excl {}))", excl.iter().map(|(p, s)| format!("({} {})", p, range_sx(s))).collect::<Vec<_>>().join(" "));
    Some((world, tree_sx::<u32>(built[top].as_ref().unwrap())))
}

fn emit(out: &mut Out, seen: &mut HashSet<String>, case: String) {
    if !seen.insert(case.clone()) { return; }
    let sx = crate::sexp::parse(&case).unwrap();
    // a panic of the evaluated code (or a failed harness expectation) is an observation: the driver reports it with this case
    let obs = std::panic::catch_unwind(std::panic::AssertUnwindSafe(|| eval(&sx))).unwrap_or_else(|_| "(harness-panic 1)".to_string());
    // third field: 0 marks a trivial case (the tree is a single external leaf)
    out.n += 1;
    use std::io::Write;
    writeln!(out.w, "{}\t{}\t{}", case, obs, case.contains("(der ") as u8).unwrap();
}

pub fn generate(out: &mut Out, rng: &mut Rng, thorough: bool, which: &str) {
    let mut inputs: Vec<Input> = vec![];
    solver_inputs(rng, thorough, &mut inputs);
    let nsolver = inputs.len();
    let nsynth = if thorough { 400000 } else { 12000 };
    let mut k = 0;
    while k < nsynth {
        if let Some((world, tree)) = synth_dag(rng) { inputs.push(Input { src: "synth", world, tree }); }
        k += 1;
    }
    let mut seen: HashSet<String> = HashSet::new();
    let mut posts = 0u64;
    for i in &inputs {
        if which == "collapse" {
            emit(out, &mut seen, format!("(collapse {} {} {})", i.src, i.world, i.tree));
        } else {
            emit(out, &mut seen, format!("(report {} {} {})", i.src, i.world, i.tree));
            // and the collapsed tree, when collapse changes it
            let mut memo = HashMap::new();
            let t = parse_tree(&crate::sexp::parse(&i.tree).unwrap(), &mut memo);
            if let Some(t2) = collapse(&t) {
                let s2 = tree_sx::<u32>(&t2);
                if s2 != i.tree {
                    posts += 1;
                    emit(out, &mut seen, format!("(report {}-post {} {})", i.src, i.world, s2));
                }
            }
        }
    }
    HIST.with(|h| {
        let h = h.borrow();
        eprintln!("[{}] inputs: {} distinct resolve trees, {} synthetic DAGs, {} collapsed variants, {} cases emitted", which, nsolver, inputs.len() - nsolver, posts, seen.len());
        for (k, v) in h.h.iter() { eprintln!("[{}] {:>9}  {}", which, v, k); }
    });
}
